#!/usr/bin/env python3
"""Regenerates the generated appendices of DESIGN.md (between the GENERATED markers) from known_findings.txt, mutants/ and seeded/."""
import glob, json, os, re
V = os.path.dirname(os.path.abspath(__file__))
out = []
out.append('### B. Repairs and known findings (from known_findings.txt)\n')
out.append('| property | status | commit / signature | what failed on the pinned tree |\n|---|---|---|---|')
for line in open(os.path.join(V, 'known_findings.txt'), encoding='utf-8'):
    line = line.rstrip('\n')
    if line.startswith('fixed: '):
        m = re.match(r'fixed: property=(\S+) (\S+) (.*)', line)
        out.append('| %s | fixed | `%s` | %s |' % (m.group(1), m.group(2), m.group(3).replace('|', '\\|')))
    elif line.startswith('known: '):
        head, _, what = line[7:].partition(' :: ')
        prop, _, sig = head.partition(' sig=')
        out.append('| %s | known finding | `%s` | %s |' % (prop.replace('property=', ''), sig, what.replace('|', '\\|')))
out.append('\n### C. Mutants kept under /verif/mutants (each is reported as VIOLATION by the quick tier unless noted)\n')
out.append('| property | mutants (file names describe the change) |\n|---|---|')
for d in sorted(glob.glob(os.path.join(V, 'mutants', 'C*'))):
    names = sorted(os.path.basename(f)[:-5] for f in glob.glob(os.path.join(d, '*.diff')))
    nd = sorted(os.path.basename(f)[:-5] for f in glob.glob(os.path.join(d, 'not_detected', '*.diff')))
    out.append('| %s | %s%s |' % (os.path.basename(d), ', '.join(names), ('; kept in not_detected/ (property still holds with them): ' + ', '.join(nd)) if nd else ''))
eq = sorted(os.path.basename(f)[:-5] for f in glob.glob(os.path.join(V, 'mutants', 'equivalent', '*.diff')))
out.append('\nMutants that turned out to be behaviour-preserving for their property (`mutants/equivalent/`, not reported, correctly): ' + ', '.join(eq) + '.\n')
out.append('### D. Seeded changes written by independent sub-agents (/verif/seeded/<id>/: patch.diff, demo.py, meta.json)\n')
out.append('| seeded change | what it does / what it needs | detected by |\n|---|---|---|')
for d in sorted(glob.glob(os.path.join(V, 'seeded', '*'))):
    try:
        m = json.load(open(os.path.join(d, 'meta.json')))
    except Exception:
        continue
    cr = m.get('check_result', {})
    det = ('`%s` quick' % m['property']) if cr.get('detected') else 'NOT detected'
    if cr.get('also_detected_by'):
        det += ', also ' + ', '.join(cr['also_detected_by'])
    if cr.get('history'):
        det += ' — ' + cr['history']
    summ = (m.get('summary') or '') + ' Needs: ' + (m.get('needs') or '')
    out.append('| %s | %s | %s |' % (os.path.basename(d), ' '.join(summ.split()).replace('|', '\\|')[:700], det.replace('|', '\\|')))
text = '\n'.join(out) + '\n'
p = os.path.join(V, 'DESIGN.md')
s = open(p, encoding='utf-8').read()
a, b = '<!-- GENERATED-BEGIN -->', '<!-- GENERATED-END -->'
if a in s:
    s = s[:s.index(a) + len(a)] + '\n' + text + s[s.index(b):]
else:
    s += '\n' + a + '\n' + text + b + '\n'
open(p, 'w', encoding='utf-8').write(s)
print('tables regenerated')
