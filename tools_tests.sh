#!/bin/bash
# run (part of) the repository's suite; prints the summary line; exit status = pytest's
cd /repo && env -u CIRCUITS_VERIF timeout -k 5 ${TEST_WALL:-600} /venv/bin/python -m pytest -q -p no:cacheprovider --timeout=${TEST_TIMEOUT:-90} "$@" > /tmp/tools_tests.$$ 2>&1
rc=$?
grep -E "^(FAILED|ERROR)|passed|failed" /tmp/tools_tests.$$ | tail -8
rm -f /tmp/tools_tests.$$
exit $rc
