#!/usr/bin/env python3
"""Mutation campaign (evaluation of the checks, not a check itself).

Generates simple syntactic mutants of the anchored source files in a scratch worktree (outside /repo and /verif), keeps
those that the repository's own tests of that area still pass, runs the quick tier of the mapped checks against each and
records which ones are reported.  Survivors have to be triaged by hand (equivalent for the property vs. blind spot).

    tools_mutation_campaign.py [--per-file N] [--only path-substring] [--out dir]
"""
import argparse
import hashlib
import json
import os
import re
import subprocess
import sys

MAP = {
    'circuits/core/manager.py': ('tests/core', ['C01', 'C02', 'C04', 'C05', 'C06', 'C07', 'C08', 'C03', 'C09']),
    'circuits/core/components.py': ('tests/core', ['C01', 'C05', 'C07']),
    'circuits/core/values.py': ('tests/core', ['C04', 'C06']),
    'circuits/core/events.py': ('tests/core', ['C02', 'C03', 'C04', 'C05', 'C09']),
    'circuits/core/timers.py': ('tests/core', ['C09']),
    'circuits/core/helpers.py': ('tests/core', ['C03', 'C09', 'C08']),
    'circuits/core/pollers.py': ('tests/net', ['C10', 'C12', 'C03', 'C09']),
    'circuits/net/sockets.py': ('tests/net', ['C11', 'C12']),
    'circuits/io/file.py': ('tests/io', ['C11']),
    'circuits/web/http.py': ('tests/web', ['C13', 'C14', 'C15', 'C16']),
    'circuits/web/parsers/http.py': ('tests/web', ['C13', 'C14']),
    'circuits/web/wrappers.py': ('tests/web', ['C15', 'C14']),
    'circuits/web/utils.py': ('tests/web', ['C16']),
    'circuits/web/dispatchers/static.py': ('tests/web', ['C16']),
    'circuits/protocols/websocket.py': ('tests/web/test_websockets.py', ['C17']),
    'circuits/protocols/line.py': ('tests/protocols', ['C18']),
    'circuits/protocols/irc/message.py': ('tests/protocols', ['C18']),
    'circuits/node/protocol.py': ('tests/node', ['C19']),
    'circuits/node/utils.py': ('tests/node', ['C19']),
    'circuits/web/tools.py': ('tests/web', ['C20', 'C16']),
    'circuits/web/sessions.py': ('tests/web', ['C20']),
}

OPS = [
    (r' == ', ' != '), (r' != ', ' == '), (r' <= ', ' < '), (r' < ', ' <= '), (r' >= ', ' > '), (r' > ', ' >= '),
    (r' is not None', ' is None'), (r' is None', ' is not None'), (r' and ', ' or '), (r' or ', ' and '),
    (r'\bTrue\b', 'False'), (r'\bFalse\b', 'True'), (r' \+ 1\b', ' - 1'), (r' - 1\b', ' + 1'), (r' \+= 1\b', ' -= 1'), (r' -= 1\b', ' += 1'),
    (r'\bif not ', 'if '), (r'\bbreak\b', 'pass'), (r'\bcontinue\b', 'pass'), (r'\.appendleft\(', '.append('), (r'\.append\(', '.appendleft('),
    (r' in self\.', ' not in self.'), (r' not in self\.', ' in self.'),
]
SKIP = re.compile(r'^\s*(#|"""|\'\'\'|import |from |def |class |@|raise |return$|pass$|else:|try:|finally:|except)')


def mutants_of(path, text):
    out = []
    lines = text.split('\n')
    indoc = False
    for i, line in enumerate(lines):
        if line.count('"""') % 2 == 1:
            indoc = not indoc
            continue
        if indoc or SKIP.match(line) or not line.strip():
            continue
        for pat, rep in OPS:
            for m in re.finditer(pat, line):
                new = line[:m.start()] + re.sub(pat, rep, line[m.start():m.end()]) + line[m.end():]
                if new != line:
                    out.append((i, line, new, '%s->%s' % (pat.strip(), rep.strip())))
        # statement deletion: simple calls / assignments on one line
        st = line.strip()
        if re.match(r'^(self\.[\w.]+\(.*\)|self\.[\w.]+ = .+|del .+|[\w.]+\.(remove|add|discard|clear|append|pop)\(.*\))$', st) and not st.endswith(','):
            indent = line[:len(line) - len(line.lstrip())]
            out.append((i, line, indent + 'pass', 'delete-statement'))
    return out


def sh(cmd, cwd=None, timeout=1200, env=None):
    try:
        p = subprocess.run(cmd, shell=True, cwd=cwd, timeout=timeout, env=env, stdout=subprocess.PIPE, stderr=subprocess.STDOUT, text=True)
        return p.returncode, p.stdout
    except subprocess.TimeoutExpired as e:
        return 124, (e.stdout or '') if isinstance(e.stdout, str) else ''


def main():
    ap = argparse.ArgumentParser()
    ap.add_argument('--per-file', type=int, default=6)
    ap.add_argument('--only', default='')
    ap.add_argument('--out', default='/verif/mutation_campaign')
    ap.add_argument('--salt', default='a')
    a = ap.parse_args()
    os.makedirs(a.out, exist_ok=True)
    wt = '/tmp/campaign_wt_%d' % os.getpid()
    sh('git -C /repo worktree add -q --detach %s HEAD' % wt)
    results = open(os.path.join(a.out, 'results.jsonl'), 'a')
    try:
        for path, (tests, checks) in MAP.items():
            if a.only and a.only not in path:
                continue
            text = open(os.path.join(wt, path)).read()
            cands = mutants_of(path, text)
            cands.sort(key=lambda c: hashlib.sha1(('%s|%s|%d|%s|%s' % (a.salt, path, c[0], c[3], c[2])).encode()).hexdigest())
            taken = 0
            for (lineno, old, new, op) in cands:
                if taken >= a.per_file:
                    break
                lines = text.split('\n')
                lines[lineno] = new
                open(os.path.join(wt, path), 'w').write('\n'.join(lines))
                env = dict(os.environ, PYTHONPATH=wt)
                rc, out = sh('/venv/bin/python -c "import circuits.web, circuits.node, circuits.protocols.irc, circuits.io"', cwd=wt, env=env, timeout=60)
                rec = {'file': path, 'line': lineno + 1, 'op': op, 'old': old.strip(), 'new': new.strip()}
                if rc != 0:
                    rec['status'] = 'does-not-import'
                else:
                    rc, out = sh('timeout -k 5 600 /venv/bin/python -m pytest -q -p no:cacheprovider --timeout=120 -x %s' % tests, cwd=wt, env=env, timeout=700)
                    summ = [x for x in out.split('\n') if re.search(r'\d+ passed|\d+ failed|error', x)]
                    ok = bool(summ) and ('passed' in summ[-1]) and not re.search(r'[1-9]\d* failed', summ[-1].replace('3 failed', '') if 'tests/net' in tests else summ[-1]) and 'error' not in summ[-1].lower()
                    if not ok:
                        rec['status'] = 'killed-by-tests'
                        rec['tests'] = (summ[-1] if summ else 'no summary')[:160]
                    else:
                        taken += 1
                        rec['status'] = 'passes-tests'
                        rec['detected_by'] = []
                        rec['checked'] = []
                        for cid in checks:
                            rc2, out2 = sh('VERIF_REPO=%s timeout 900 /venv/bin/python /verif/run_check.py %s --tier quick' % (wt, cid), timeout=1000)
                            rec['checked'].append(cid)
                            if rc2 == 1 and 'VIOLATION' in out2:
                                rec['detected_by'].append(cid)
                                break     # one detection is enough
                            if rc2 not in (0, 1):
                                rec.setdefault('notes', []).append('%s exit %d' % (cid, rc2))
                        rec['status'] = 'detected' if rec['detected_by'] else 'SURVIVED'
                results.write(json.dumps(rec) + '\n')
                results.flush()
                print(rec['status'], path, lineno + 1, op, '|', rec['new'][:80], '|', rec.get('detected_by'), flush=True)
                open(os.path.join(wt, path), 'w').write(text)
    finally:
        sh('git -C /repo worktree remove --force %s' % wt)


if __name__ == '__main__':
    sys.exit(main())
