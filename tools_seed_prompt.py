#!/usr/bin/env python3
"""Prints the prompt for a seeding sub-agent: tools_seed_prompt.py <prop-id> <tag>  (creates the worktree)"""
import json, subprocess, sys
pid, tag = sys.argv[1], sys.argv[2]
props = {json.loads(l)['id']: json.loads(l) for l in open('/verif/properties.jsonl')}
p = props[pid]
wt = '/tmp/seedwt_%s_%s' % (pid, tag)
out = '/tmp/seedout_%s_%s' % (pid, tag)
subprocess.run(['git', '-C', '/repo', 'worktree', 'add', '-q', '--detach', wt, 'HEAD'], check=True)
subprocess.run(['mkdir', '-p', out], check=True)
print(f"""You are helping to evaluate a verification effort for the Python library `circuits` (event-driven component framework).
Your job: craft ONE realistic, subtle code change (a plausible bug a maintainer could introduce during a refactoring or optimisation)
to the library source under `{wt}/circuits/` that BREAKS the following semantic property, while the library still imports and its
existing test suite still passes.

PROPERTY {pid}: {p['title']}
Statement: {p['statement']}
Quantified over: {p['quantifier']['text']}
Relevant files: {', '.join(p['anchors']['files'])}

Rules
- Work ONLY inside your own git worktree `{wt}` (a checkout of the library) and your output directory `{out}`. Never touch /repo or /verif, never read /verif.
- Use `/venv/bin/python` and ALWAYS run your programs with `PYTHONPATH={wt}` so that your modified copy is imported (check `circuits.__file__`).
- The change must be one that ordinary use would NOT expose at once: it should need something specific to manifest (a particular
  interleaving or ordering, a fault or unusual environment answer at a particular point, a multi-step sequence of operations, an unusual
  input or segmentation, or two cooperating sites that each look fine alone). Do not just delete the feature or make it crash always.
- The existing tests must still pass with your change. Run the relevant ones, e.g.
    cd {wt} && PYTHONPATH={wt} timeout -k 5 900 /venv/bin/python -m pytest -q -p no:cacheprovider --timeout=120 tests/core
  (and tests/net, tests/web, tests/node, tests/protocols, tests/io as relevant to the files you touched; run each directory in a separate
  pytest invocation - mixing tests/core with other directories in one invocation makes tests/core/test_bridge.py hang, unrelated to you).
  The process sometimes hangs at exit after printing the summary line; the `timeout` wrapper deals with that - judge by the summary line.
- Write a demonstration `{out}/demo.py`: a small self-contained program (public API of circuits, deterministic, finishes in < 30 s, no network
  beyond loopback/socketpairs) that exits 0 and prints PASS on the UNCHANGED library and exits 1 and prints FAIL on your changed library.
  Verify both. To switch between changed and unchanged use `git -C {wt} diff > {out}/patch.diff; git -C {wt} apply -R {out}/patch.diff` and `git -C {wt} apply {out}/patch.diff` - NEVER `git stash` (the stash is shared with other worktrees of the same repository that other people are using right now).
- Save the change as `{out}/patch.diff` (output of `git -C {wt} diff`), and `{out}/meta.json` with keys: property, summary (what was changed),
  needs (what specific situation is needed for the breakage to manifest), tests_run (the exact pytest commands you ran and their summary lines).
- Leave the worktree with your change applied (uncommitted). Do not commit.
Finish with a 5-line report: what you changed, why it breaks the property, what it needs to manifest, test results, demo results.""")
