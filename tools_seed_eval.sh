#!/bin/bash
# usage: tools_seed_eval.sh <PROP> <tag> [testdirs...]
# confirms a seeded change (in its scratch worktree; the check runs against that worktree through VERIF_REPO)
# confirms a seeded change (demo passes on clean tree / fails with the change, given test dirs pass), runs the check against it,
# stores it under /verif/seeded/<PROP>_<tag>/ and removes the scratch worktree.
P=$1; T=$2; shift 2
WT=/tmp/seedwt_${P}_$T; OUT=/tmp/seedout_${P}_$T; DST=/verif/seeded/${P}_$T
[ -f $OUT/patch.diff ] || git -C $WT diff > $OUT/patch.diff
mkdir -p $DST; cp $OUT/patch.diff $OUT/demo.py $DST/ 2>/dev/null; cp $OUT/meta.json $DST/meta.agent.json 2>/dev/null
cd $WT || exit 3
git checkout -- . ; git apply $OUT/patch.diff
r_changed=$(PYTHONPATH=$WT timeout 120 /venv/bin/python $DST/demo.py > /tmp/demo_c.$$ 2>&1; echo $?)
git apply -R $OUT/patch.diff
r_clean=$(PYTHONPATH=$WT timeout 120 /venv/bin/python $DST/demo.py > /tmp/demo_u.$$ 2>&1; echo $?)
git apply $OUT/patch.diff
echo "demo: clean rc=$r_clean ($(tail -1 /tmp/demo_u.$$ | cut -c1-80))  changed rc=$r_changed ($(tail -1 /tmp/demo_c.$$ | cut -c1-80))"
tests=""
for d in "$@"; do
  res=$(PYTHONPATH=$WT timeout -k 5 600 /venv/bin/python -m pytest -q -p no:cacheprovider --timeout=120 $d 2>&1 | grep -E "passed|failed" | tail -1)
  echo "tests $d: $res"; tests="$tests $d: $res;"
done
# run the check against the scratch worktree itself (it has the change applied); /repo is not touched
VERIF_REPO=$WT /venv/bin/python /verif/run_check.py $P --tier quick > /tmp/seed_check.$$ 2>&1; rc=$?
grep -E "VIOLATION|KNOWN-FINDING|SELF-CHECK" /tmp/seed_check.$$ | head -4
grep -B1 VIOLATION /tmp/seed_check.$$ | grep -v VIOLATION | head -2 | cut -c1-300
echo "check $P quick exit=$rc"
python3 - "$DST" "$P" "$r_clean" "$r_changed" "$rc" "$tests" <<'PY'
import json,sys,os
dst,prop,rcl,rch,rc,tests=sys.argv[1:7]
agent={}
try: agent=json.load(open(os.path.join(dst,'meta.agent.json')))
except Exception: pass
meta={'property':prop,'summary':agent.get('summary'),'needs':agent.get('needs'),
 'confirmed':{'demo_on_unchanged_tree_exit':int(rcl),'demo_with_change_exit':int(rch),'tests_run_by_me':tests.strip(),
              'tests_reported_by_author':agent.get('tests_run')},
 'check_result':{'command':'/venv/bin/python /verif/run_check.py %s --tier quick'%prop,'exit':int(rc),'detected':int(rc)==1}}
json.dump(meta,open(os.path.join(dst,'meta.json'),'w'),indent=1)
PY
rm -f /tmp/demo_?.$$ /tmp/seed_check.$$
git -C /repo worktree remove --force $WT && rm -rf $OUT
