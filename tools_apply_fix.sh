#!/bin/bash
# usage: tools_apply_fix.sh <diff> <check-id> <msgfile> <testpaths...>  - apply, run check, tests; commit if tests pass (check result is shown, not required)
d=$1; id=$2; msg=$3; shift 3
cd /repo || exit 3
git diff --quiet || { echo "/repo dirty"; exit 3; }
git apply "$d" || { echo "DOES NOT APPLY: $d"; exit 3; }
cd /verif
timeout 900 /venv/bin/python run_check.py $id --tier quick > /tmp/af.$$ 2>&1; rc=$?
grep -E "^$id quick|SELF-CHECK" /tmp/af.$$ | cut -c1-160
python3 -c "
import json;d=json.load(open('/verif/evidence/$id.json'));print('  remaining:', d['coverage']['failing_cases_by_signature'])"
t=$(/verif/tools_tests.sh "$@" | tail -1); echo "  tests: $t"
if echo "$t" | grep -q "passed" && ! echo "$t" | grep -qE "[0-9]+ (failed|error)"; then
  cd /repo && git commit -qaF "$msg" && git log --oneline | head -1
else
  echo "  NOT COMMITTED"; cd /repo && git checkout -- .
fi
rm -f /tmp/af.$$
