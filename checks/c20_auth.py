"""C20 - authentication, session binding and gateway trust are sound.

Engine E4 (bounded-exhaustive input / configuration enumeration), three families, all on fresh real objects:

  auth   : every (user table, table wrapper, realm, method, encrypt) configuration x every Authorization header of a
           grammar covering Basic, Digest, malformed and unknown schemes.  Each header is given to check_auth,
           basic_auth and digest_auth on a fresh Request/Response.  Oracle: a three-valued reference verifier written
           from the statement (MUST_ACCEPT / MUST_REFUSE / MAY), Digest responses computed by an independent
           RFC 2617 implementation in this file.
  sess   : every sequence of 2 (quick) / 2 and 3 (thorough) requests through a real Sessions component over
           client = (address, user agent) x cookie kind; uuid4 is scripted.  Oracle: reference store keyed by
           (sid, client).
  vhost  : every (trusted_gateways, remote address, X-Forwarded-Host, Host, path) through a real VirtualHosts
           component; differential oracle: for a remote address outside the configured list the routed path must
           equal the routed path of the same request without the header.
"""
import base64
import hashlib
import itertools
import uuid as uuid_stdlib

from circuits import Manager
from circuits.web import sessions as sessions_mod
from circuits.web import tools
from circuits.web.dispatchers.virtualhosts import VirtualHosts
from circuits.web.events import request as request_event
from circuits.web.headers import Headers
from circuits.web.wrappers import Request, Response

from mc import core

PROPERTY = 'C20'
LEVEL = 'model_checking'
RULE = ('auth: every configuration (3 user tables x dict / callable->dict / callable(user)->password x 2 realms x 2 methods x '
        '3 encrypt kinds) x every Authorization header of the grammar (Basic: 4 users x password candidates x 10 spellings; '
        'Digest: 4 users x password candidates x 5 header-realm/hashed-realm pairs x 2 hashed methods x 4 qop x 4 nc/cnonce '
        'presences x 5 algorithms x 2 response styles, responses computed from the right / wrong passwords and from a degenerate A1 (the text None, nothing), every non-empty subset of the 5 required fields missing, extra fields, '
        'scheme spellings; raw malformed / unknown-scheme values) x 3 entry points, each on a fresh Request/Response; '
        'sess: every request sequence (length 2, thorough also 3) over 16 clients (2 IPv4 and 2 IPv6 addresses x 4 user agents) x 9 cookie kinds on a fresh Sessions component '
        'with scripted uuid; vhost: every gateway list x remote address x X-Forwarded-Host x Host x path on a fresh '
        'VirtualHosts.  distinct = distinct (configuration, header, entry point) / request sequence / routing case; '
        'non-trivial = the header carries an Authorization value (auth), the last request presents a cookie (sess), '
        'the request carries X-Forwarded-Host (vhost)')
ASSUMPTIONS = [
    'an exception escaping check_auth/basic_auth/digest_auth counts as refusal (the request is answered with an error, not the protected result)',
    'granted = check_auth returns a truthy value (the documented `if check_auth(...)` idiom) / basic_auth, digest_auth return None',
    'completeness (MUST_ACCEPT) is judged only for canonical spellings of what the server offers (Basic b64(user:pass); Digest '
    'qop=auth with nc+cnonce, algorithm absent or MD5); other self-consistent forms from a client that knows the password '
    '(qop absent, MD5-sess, auth-int, odd spellings, missing nonce/uri) may be accepted or refused',
    'the Digest nonce and uri are not validated by circuits and not judged (the statement does not mention them)',
    'client fingerprint = the pair (remote address, User-Agent header value or absent)',
    'a never-issued session id carrying the requesting client\'s own fingerprint suffix may be adopted (counted, not judged); '
    'it must still differ from every existing id and show no stored data',
    'fresh id = an id different from the presented cookie and from every id handed out before; that it was drawn from the '
    'scripted uuid4 is counted (sess_fresh_id_drawn_from_scripted_uuid), so uniqueness is by construction of the run, not luck',
    'trusted_gateways=None (unconfigured) is observed and counted, never judged; honouring the header for a trusted gateway is counted, not judged',
    'Request objects are built through the public constructor with a stub socket whose getpeername() gives the remote address',
]

# =============================================================================================
# common


class StubSock:
    def __init__(self, ip):
        self.ip = ip

    def getpeername(self):
        if ':' in self.ip:
            return (self.ip, 40000, 0, 0)       # AF_INET6: (host, port, flowinfo, scope id)
        return (self.ip, 40000)


class _StubServer:
    host = '127.0.0.1'
    port = 8000
    secure = False
    display_banner = False


def make_request(ip, method, path, headers, sock=None):
    # (the HTTP component passes its server; a request without Host header takes its host and port from there)
    req = Request(sock if sock is not None else StubSock(ip), method, 'http', path, (1, 1), '', Headers(list(headers)), _StubServer())
    return req, Response(req)


def md5hex(s):
    return hashlib.md5(s.encode('utf-8')).hexdigest()


# =============================================================================================
# auth family

TABLES = [
    {},
    {'admin': 'admin'},
    {'admin': 'admin', 'bob': 'None', 'carol': ''},
]
WRAPPERS = ['dict', 'call0', 'call1']
REALMS = ['Test', 'Other']
METHODS = ['GET', 'POST']
ENCRYPTS = ['str', 'md5', 'salt2']
HEADER_USERS = ['admin', 'bob', 'carol', 'ghost']
ENTRY_POINTS = ['check_auth', 'basic_auth', 'digest_auth']

NONCE = 'dcd98b7102dd2f0e8b11d0f600bfb0c093'
URI = '/secret'
NC = '00000001'
CNONCE = '0a4f113b'
REQUIRED = ['username', 'realm', 'nonce', 'uri', 'response']


def ref_encrypt(kind, password, user):
    """independent re-statement of the three encrypt callables"""
    if kind == 'str':
        return password
    if kind == 'md5':
        return md5hex(password)
    return '%s$%s' % (user, password)


def lib_encrypt(kind):
    """the callable handed to circuits (None = documented default 'md5 encryption')"""
    if kind == 'str':
        return str          # as in the docs / tests / examples
    if kind == 'md5':
        return None
    return lambda password, user: '%s$%s' % (user, password)


def configs():
    for ti, wi, ri, mi, ei in itertools.product(range(len(TABLES)), range(len(WRAPPERS)), range(len(REALMS)),
                                                range(len(METHODS)), range(len(ENCRYPTS))):
        yield (ti, wi, ri, mi, ei)


_STORED = {}


def stored_table(cfg):
    """what the configured table holds: encrypt(password) per user (read-only; callers copy before handing it to circuits)"""
    key = (cfg[0], cfg[4])
    if key not in _STORED:
        _STORED[key] = {u: ref_encrypt(ENCRYPTS[key[1]], p, u) for u, p in TABLES[key[0]].items()}
    return _STORED[key]


def users_arg(cfg):
    stored = stored_table(cfg)
    kind = WRAPPERS[cfg[1]]
    if kind == 'dict':
        return dict(stored)
    if kind == 'call0':
        return lambda: dict(stored)
    return lambda username: stored.get(username)


def other_realm(realm):
    return REALMS[1 - REALMS.index(realm)]


_CANDS = {}


def password_candidates(cfg, user, scheme):
    key = (cfg[0], cfg[4], user, scheme)
    if key not in _CANDS:
        _CANDS[key] = _password_candidates(cfg, user, scheme)
    return _CANDS[key]


def _password_candidates(cfg, user, scheme):
    """(kind, text) candidates, deduplicated by text, 'right' first.  For Digest the secret is the table's stored value."""
    plain = TABLES[cfg[0]]
    stored = stored_table(cfg)
    out = []
    if user in plain:
        out.append(('right', plain[user] if scheme == 'basic' else stored[user]))
        out.append(('stored' if scheme == 'basic' else 'plain', stored[user] if scheme == 'basic' else plain[user]))
    out += [('wrong', 'wrong'), ('None', 'None'), ('empty', ''), ('user', user)]
    if scheme == 'digest':
        # responses computed from a degenerate A1 (what a verifier that loses A1 on some path would hash): the text of None, nothing
        out += [('A1=None', A1_MARK + 'None'), ('A1=empty', A1_MARK)]
    seen, res = set(), []
    for k, t in out:
        if t not in seen:
            seen.add(t)
            res.append((k, t))
    return res


# ---- independent RFC 2617 response computation

def _h(alg, text):
    f = hashlib.sha1 if alg == 'SHA1' else hashlib.md5
    return f(text.encode('utf-8')).hexdigest()


A1_MARK = '\x00A1='


def rfc2617_response(user, realm, password, method, uri, nonce, nc, cnonce, qop, alg, style):
    a1 = '%s:%s:%s' % (user, realm, password)
    if password.startswith(A1_MARK):
        a1 = password[len(A1_MARK):]      # not a password: the whole of A1 is this text
    if alg == 'MD5-sess':
        a1 = '%s:%s:%s' % (_h(alg, a1), nonce, cnonce)
    a2 = '%s:%s' % (method, uri)
    if qop == 'auth-int':
        a2 += ':' + _h(alg, '')
    if style == '2617':
        data = '%s:%s:%s:%s:%s' % (nonce, nc, cnonce, qop, _h(alg, a2))
    else:
        data = '%s:%s' % (nonce, _h(alg, a2))
    return _h(alg, _h(alg, a1) + ':' + data)


QOPS = [None, 'auth', 'auth-int', 'bogus']
NCCS = ['both', 'none', 'nc', 'cnonce']
ALGS = [None, 'MD5', 'MD5-sess', 'SHA1', 'bogus']
REALM_PAIRS = [('cfg', 'hdr'), ('other', 'hdr'), ('other', 'cfg'), ('lower', 'hdr'), ('lower', 'cfg')]
BASIC_FORMS = ['ok', 'lower', 'upper', 'two-spaces', 'tab', 'no-pad', 'no-colon', 'no-space', 'bad-b64', 'non-utf8']
RAW_VALUES = ['', ' ', 'Basic', 'Basic ', 'Digest', 'Digest ', 'Bearer abc', 'Negotiate YWRtaW46YWRtaW4=', 'NTLM', 'admin:admin',
              'Digest username', 'Digest =', 'Basic ====']


def dspec(user, pk, rp=('cfg', 'hdr'), hm='req', qop='auth', ncc='both', alg=None, style='2617', missing=(), extra=None,
          scheme='Digest'):
    return {'k': 'digest', 'user': user, 'pw': pk, 'hrealm': rp[0], 'hashrealm': rp[1], 'hmethod': hm, 'qop': qop, 'ncc': ncc,
            'alg': alg, 'style': style, 'missing': list(missing), 'extra': extra, 'scheme': scheme}


def header_specs(cfg, user, tier):
    """Every symbolic header of the grammar for one configuration and one header user."""
    # ---- Basic
    for pk, _t in password_candidates(cfg, user, 'basic'):
        for form in BASIC_FORMS:
            yield {'k': 'basic', 'user': user, 'pw': pk, 'form': form}
    # ---- raw values (once per configuration: attached to the first header user)
    if user == HEADER_USERS[0]:
        yield {'k': 'none'}
        for text in RAW_VALUES:
            yield {'k': 'raw', 'text': text}
    # ---- Digest, all required fields present
    pws = [pk for pk, _t in password_candidates(cfg, user, 'digest')]
    full = tier == 'thorough'
    for pk in pws:
        for rp in REALM_PAIRS:
            for hm in ('req', 'other'):
                for qop in QOPS:
                    for ncc in NCCS:
                        for alg in ALGS:
                            if not full:
                                # quick: qop/ncc/alg variants are fully crossed with each other and with the password, but
                                # only varied one dimension at a time against the realm / method dimensions
                                plain_form = (qop in (None, 'auth') and ncc in ('both', 'none') and alg in (None, 'MD5'))
                                plain_ctx = (rp == ('cfg', 'hdr') and hm == 'req')
                                if not (plain_form or plain_ctx):
                                    continue
                            styles = ['2069'] + (['2617'] if qop is not None else [])
                            for style in styles:
                                yield dspec(user, pk, rp, hm, qop, ncc, alg, style)
    # ---- Digest, every non-empty subset of the required fields missing
    for r in range(1, len(REQUIRED) + 1):
        for missing in itertools.combinations(REQUIRED, r):
            for pk in pws:
                for qop, ncc, style in ((None, 'none', '2069'), ('auth', 'both', '2617')):
                    yield dspec(user, pk, qop=qop, ncc=ncc, style=style, missing=missing)
    # ---- Digest, extra fields and scheme spellings
    for pk in pws:
        for extra in (None, 'opaque', 'unknown', 'dup-user'):
            for scheme in ('Digest', 'digest', 'DIGEST'):
                if extra is None and scheme == 'Digest':
                    continue
                for qop, ncc, style in ((None, 'none', '2069'), ('auth', 'both', '2617')):
                    yield dspec(user, pk, qop=qop, ncc=ncc, style=style, extra=extra, scheme=scheme)


def render(cfg, spec):
    """symbolic header -> (header text or None, verdict, reason class)

    verdict: 'accept' (MUST_ACCEPT), 'refuse' (MUST_REFUSE), 'may'.  reason = why it must be refused / what it is."""
    ti, wi, ri, mi, ei = cfg
    realm, method = REALMS[ri], METHODS[mi]
    stored = stored_table(cfg)
    k = spec['k']
    if k == 'none':
        return None, 'refuse', 'no-header'
    if k == 'raw':
        t = spec['text']
        scheme = t.split(' ', 1)[0].lower()
        return t, 'refuse', {'basic': 'basic:malformed', 'digest': 'digest:incomplete-field-set'}.get(scheme, 'unknown-scheme')
    user = spec['user']
    if k == 'basic':
        pw = dict(password_candidates(cfg, user, 'basic'))[spec['pw']]
        form = spec['form']
        raw = ('%s:%s' % (user, pw)).encode('utf-8')
        b64 = base64.b64encode(raw).decode('ascii')
        canonical = form == 'ok'
        carries = True
        if form == 'ok':
            text = 'Basic ' + b64
        elif form == 'lower':
            text = 'basic ' + b64
        elif form == 'upper':
            text = 'BASIC ' + b64
        elif form == 'two-spaces':
            text = 'Basic  ' + b64
        elif form == 'tab':
            text = 'Basic\t' + b64
        elif form == 'no-pad':
            text = 'Basic ' + b64.rstrip('=') if b64.endswith('=') else 'Basic ' + b64[:-1]
        elif form == 'no-colon':
            text = 'Basic ' + base64.b64encode(('%s%s' % (user, pw)).encode('utf-8')).decode('ascii')
            carries = False
        elif form == 'no-space':
            text = 'Basic' + b64
        elif form == 'bad-b64':
            text = 'Basic !' + b64[1:-1] + '$'
            carries = False
        else:  # non-utf8: a byte that is not valid UTF-8 in the password
            text = 'Basic ' + base64.b64encode(raw + b'\xff').decode('ascii')
            carries = False
        return text, canonical, carries, user, pw
    # ---- digest
    pw = dict(password_candidates(cfg, user, 'digest'))[spec['pw']]
    hrealm = {'cfg': realm, 'other': other_realm(realm), 'lower': realm.lower()}[spec['hrealm']]
    hashrealm = hrealm if spec['hashrealm'] == 'hdr' else realm
    hmethod = method if spec['hmethod'] == 'req' else METHODS[1 - mi]
    qop, ncc, alg, style = spec['qop'], spec['ncc'], spec['alg'], spec['style']
    response = rfc2617_response(user, hashrealm, pw, hmethod, URI, NONCE, NC, CNONCE, qop, alg, style)
    fields = [('username', '"%s"' % user), ('realm', '"%s"' % hrealm), ('nonce', '"%s"' % NONCE), ('uri', '"%s"' % URI),
              ('response', '"%s"' % response)]
    fields = [(n, v) for n, v in fields if n not in spec['missing']]
    if alg is not None:
        fields.append(('algorithm', alg))
    if qop is not None:
        fields.append(('qop', qop))
    if ncc in ('both', 'nc'):
        fields.append(('nc', NC))
    if ncc in ('both', 'cnonce'):
        fields.append(('cnonce', '"%s"' % CNONCE))
    extra = spec['extra']
    if extra == 'opaque':
        fields.append(('opaque', '"5ccc069c403ebaf9f0171e9517f40e41"'))
    elif extra == 'unknown':
        fields.insert(0, ('foo', 'bar'))
    elif extra == 'dup-user':
        # a second username field naming a table user in front of the one the response was computed for
        fields.insert(0, ('username', '"admin"'))
    text = spec['scheme'] + ' ' + ', '.join('%s=%s' % f for f in fields)
    return text, response


def auth_verdict(cfg, spec, entry):
    """Reference verifier.  -> (header text, verdict, reason, user named by the header)"""
    ti, wi, ri, mi, ei = cfg
    realm = REALMS[ri]
    stored = stored_table(cfg)
    k = spec['k']
    if k in ('none', 'raw'):
        text, verdict, reason = render(cfg, spec)
        return text, verdict, reason, None
    user = spec['user']
    if k == 'basic':
        text, canonical, carries, user, pw = render(cfg, spec)
        # digest_auth has no encrypt parameter: it always applies the documented default (md5)
        ekind = 'md5' if entry == 'digest_auth' else ENCRYPTS[ei]
        knows = carries and user in stored and ref_encrypt(ekind, pw, user) == stored[user]
        if knows:
            return text, ('accept' if canonical else 'may'), 'basic:valid', user
        if not carries:
            reason = 'basic:malformed'
        elif user not in stored:
            reason = 'basic:unknown-user'
        else:
            reason = 'basic:wrong-password'
        return text, 'refuse', reason, user
    text, _response = render(cfg, spec)
    missing = spec['missing']
    pw = dict(password_candidates(cfg, user, 'digest'))[spec['pw']]
    # the client demonstrably knows the table's secret for the configured realm and this request's method
    # (with a duplicated username field the response was computed for the last one, `user`)
    knows = (user in stored and pw == stored[user] and spec['hrealm'] == 'cfg' and spec['hmethod'] == 'req'
             and not ({'username', 'realm', 'response'} & set(missing)))
    consistent = ((spec['qop'] is None and spec['ncc'] == 'none' and spec['style'] == '2069')
                  or (spec['qop'] is not None and spec['ncc'] == 'both' and spec['style'] == '2617'))
    # RFC 2617: qop requires nc and cnonce, and nc / cnonce require qop
    incomplete = bool(missing) or (spec['qop'] is not None) != (spec['ncc'] != 'none') or spec['ncc'] in ('nc', 'cnonce')
    if knows:
        canonical = (not missing and spec['qop'] == 'auth' and consistent and spec['alg'] in (None, 'MD5')
                     and spec['scheme'] == 'Digest' and spec['extra'] in (None, 'opaque', 'unknown'))
        return text, ('accept' if canonical else 'may'), 'digest:valid', user
    if incomplete:
        reason = 'digest:incomplete-field-set'
    elif user not in stored:
        reason = 'digest:unknown-user'
    elif spec['hrealm'] != 'cfg':
        reason = 'digest:wrong-realm'
    elif pw != stored[user]:
        reason = 'digest:wrong-password'
    else:
        reason = 'digest:other-method'
    return text, 'refuse', reason, user


def call_entry(cfg, text, entry):
    """one execution: a fresh Request/Response through one public entry point.  -> (granted, login, exception name)"""
    ti, wi, ri, mi, ei = cfg
    headers = [('Host', 'a.example')]
    if text is not None:
        headers.append(('Authorization', text))
    req, res = make_request('10.0.0.1', METHODS[mi], URI, headers)
    realm = REALMS[ri]
    users = users_arg(cfg)
    exc = None
    granted = False
    try:
        if entry == 'check_auth':
            granted = bool(tools.check_auth(req, res, realm, users, lib_encrypt(ENCRYPTS[ei])))
        elif entry == 'basic_auth':
            granted = tools.basic_auth(req, res, realm, users, lib_encrypt(ENCRYPTS[ei])) is None
        else:
            granted = tools.digest_auth(req, res, realm, users) is None
    except Exception as e:  # noqa: BLE001 - an exception is a refusal (see ASSUMPTIONS)
        exc = type(e).__name__
        granted = False
    login = req.login
    return granted, (login if isinstance(login, (str, bool)) or login is None else repr(login)), exc


def call_twice(cfg, text, entry_a, entry_b, variant):
    """two checks on the SAME request object: the first with the configuration the header is valid for, the second with another
    user table (empty) or another realm.  -> (first granted, second granted, login after the second, exception name)"""
    ti, wi, ri, mi, ei = cfg
    req, res = make_request('10.0.0.1', METHODS[mi], URI, [('Host', 'a.example'), ('Authorization', text)])

    def one(entry, realm, users):
        if entry == 'check_auth':
            return bool(tools.check_auth(req, res, realm, users, lib_encrypt(ENCRYPTS[ei])))
        if entry == 'basic_auth':
            return tools.basic_auth(req, res, realm, users, lib_encrypt(ENCRYPTS[ei])) is None
        return tools.digest_auth(req, res, realm, users) is None
    exc = None
    first = second = False
    try:
        first = one(entry_a, REALMS[ri], users_arg(cfg))
        if variant == 'empty-table':
            second = one(entry_b, REALMS[ri], {})
        else:
            second = one(entry_b, other_realm(REALMS[ri]), users_arg(cfg))
    except Exception as e:  # noqa: BLE001
        exc = type(e).__name__
    return first, second, req.login if isinstance(req.login, (str, bool)) or req.login is None else repr(req.login), exc


def judge_auth(cfg, spec, entry, obs, ref=None):
    """-> list of (signature, message)"""
    text, verdict, reason, user = ref or auth_verdict(cfg, spec, entry)
    granted, login, exc = obs
    bad = []
    names_user = bool(login) and login is not True
    if verdict == 'refuse':
        if granted:
            bad.append((reason + ':granted', '%s grants access to %r (%s); request.login=%r' % (entry, text, reason, login)))
        elif names_user:
            bad.append((reason + ':login-named', '%s leaves request.login=%r for %r (%s)' % (entry, login, text, reason)))
    elif verdict == 'accept':
        if not granted:
            bad.append((reason + ':refused' + (':' + exc if exc else ''),
                        '%s refuses valid credentials %r%s' % (entry, text, ' with %s' % exc if exc else '')))
        elif login != user:
            bad.append((reason + ':login-wrong', '%s accepted %r but request.login=%r, expected %r' % (entry, text, login, user)))
    else:
        if granted and names_user and login != user:
            bad.append((reason + ':login-wrong', '%s accepted %r but request.login=%r, expected %r' % (entry, text, login, user)))
        if not granted and names_user:
            bad.append((reason + ':login-named', '%s refused %r but request.login=%r' % (entry, text, login)))
    return bad


def cfg_json(cfg):
    ti, wi, ri, mi, ei = cfg
    return {'cfg': list(cfg), 'table': TABLES[ti], 'users_as': WRAPPERS[wi], 'realm': REALMS[ri], 'method': METHODS[mi],
            'encrypt': ENCRYPTS[ei]}


def auth_unit(unit, st, tier, want_sample):
    cfg, user = unit
    n = 0
    for spec in header_specs(cfg, user, tier):
        text = None
        for entry in ENTRY_POINTS:
            ref = auth_verdict(cfg, spec, entry)
            text, verdict, reason, _u = ref
            obs = call_entry(cfg, text, entry)
            st.executions += 1
            st.transitions += 1
            st.outcome((reason, verdict, entry, obs, spec.get('form'), tuple(spec.get('missing', ())), spec.get('qop'), spec.get('alg')))
            st.counters['auth_' + verdict] += 1
            if obs[0]:
                st.counters['auth_granted'] += 1
            if obs[2]:
                st.counters['auth_exception_refusals'] += 1
            if spec['k'] != 'none' and entry == ENTRY_POINTS[0]:
                st.interesting((cfg[0], cfg[2], cfg[3], cfg[4], text))
            for sig, msg in judge_auth(cfg, spec, entry, obs, ref):
                if len(st.failures.get('auth:' + sig, ())) >= core.MAX_FAIL_PER_SIG:
                    st.fail_counts['auth:' + sig] += 1      # enough witnesses kept for this signature: count only
                    continue
                st.fail('auth:' + sig, '%s  [config %r]' % (msg, cfg_json(cfg)),
                        {'family': 'auth', 'cfg': list(cfg), 'spec': spec, 'entry': entry})
            if verdict == 'accept' and obs[0] and spec.get('form', 'std') in ('std', None) and n % 7 == 0:
                # the same request object checked a second time against another table / realm: the first success must not carry over
                scheme = 'basic' if spec['k'] == 'basic' else 'digest'
                for variant in ('empty-table',) + (('other-realm',) if scheme == 'digest' else ()):
                    for entry_b in ENTRY_POINTS:
                        if (entry_b == 'basic_auth' and scheme == 'digest') or (entry_b == 'digest_auth' and scheme == 'basic'):
                            continue
                        first, second, login2, exc2 = call_twice(cfg, text, entry, entry_b, variant)
                        st.executions += 1
                        st.counters['auth_second_check_on_the_same_request'] += 1
                        st.outcome(('twice', entry, entry_b, variant, first, second))
                        if first and second:
                            st.fail('auth:second-check:%s:granted' % variant,
                                    '%s with the right configuration, then %s with %s on the same request object: access granted again to %r; request.login=%r  [config %r]'
                                    % (entry, entry_b, 'an empty user table' if variant == 'empty-table' else 'another realm', text, login2, cfg_json(cfg)),
                                    {'family': 'auth2', 'cfg': list(cfg), 'text': text, 'entry_a': entry, 'entry_b': entry_b, 'variant': variant})
            if want_sample and n in (5, 400) and entry == 'check_auth':
                st.sample({'family': 'auth', 'config': cfg_json(cfg), 'Authorization': text, 'reference': verdict, 'why': reason,
                           'observed': {'granted': obs[0], 'login': obs[1], 'exception': obs[2]}})
        n += 1


# =============================================================================================
# session family

IPS = ['10.0.0.1', '10.0.0.12', '2001:db8::1', '2001:db8::12']
AGENTS = [None, 'X', '2X', 'Y']
CLIENTS = [(ip, ag) for ip in IPS for ag in AGENTS]
COOKIE_KINDS = ['none', 'sid', 'transplant', 'forged-own-fp', 'forged-plain', 'sid-extended', 'uuid-only', 'empty', 'forged-foreign-fp']
COOKIE_NAME = 'circuits'


class ScriptedUUID:
    """uuid4 double: the n-th call returns an object whose hex is a fixed function of n."""

    def __init__(self):
        self.calls = 0

    def __call__(self):
        self.calls += 1
        u = type('U', (), {})()
        u.hex = '%032x' % (0xc0ffee0000 + self.calls)
        u.__class__.__str__ = lambda s: s.hex
        u.int = 0xc0ffee0000 + self.calls
        return u


class SessionWorld:
    def __init__(self):
        self.uuid = ScriptedUUID()
        # the module binds uuid4 as `uuid`; the stdlib function is replaced too so that a re-spelling keeps being scripted
        self._saved = getattr(sessions_mod, 'uuid', None)
        self._saved4 = uuid_stdlib.uuid4
        if callable(self._saved) and not isinstance(self._saved, type(uuid_stdlib)):
            sessions_mod.uuid = self.uuid
        uuid_stdlib.uuid4 = self.uuid
        self.m = Manager()
        self.sessions = sessions_mod.Sessions().register(self.m)
        for _ in range(3):
            self.m.flush()
        self.issued = []     # every sid handed out so far

    def close(self):
        if callable(self._saved) and not isinstance(self._saved, type(uuid_stdlib)):
            sessions_mod.uuid = self._saved
        uuid_stdlib.uuid4 = self._saved4

    def request(self, client, cookie, store=None, shared=False):
        """one request through the real component; returns (sid, session content before the write, uuid calls consumed).
        shared: every request from one address arrives over the same connection (one socket object), as behind a proxy that
        multiplexes its clients over a keep-alive connection"""
        ip, agent = client
        sock = None
        if shared:
            if not hasattr(self, '_socks'):
                self._socks = {}
            sock = self._socks.setdefault(ip, StubSock(ip))
        headers = [('Host', 'a.example')]
        if agent is not None:
            headers.append(('User-Agent', agent))
        if cookie is not None:
            headers.append(('Cookie', '%s=%s' % (COOKIE_NAME, cookie)))
        req, res = make_request(ip, 'GET', '/', headers, sock)
        before = self.uuid.calls
        self.m.fire(request_event(req, res), 'web')
        for _ in range(4):
            self.m.flush()
        sess = getattr(req, 'session', None)
        if sess is None:
            return None, None, 0
        seen = dict(sess)
        morsel = res.cookie.get(COOKIE_NAME)
        sid = morsel.value if morsel is not None else None
        if store is not None:
            with sess as data:
                data['secret'] = store
        return sid, seen, self.uuid.calls - before


def own_suffix(client):
    """the fingerprint suffix circuits gives this client, harvested from a cookieless request on a separate component"""
    w = SessionWorld()
    try:
        sid, _seen, _n = w.request(client, None)
    finally:
        w.close()
    if sid is None or '/' not in sid:
        return None
    return sid.split('/', 1)[1]


_SUFFIX = {}


def suffix_of(client):
    if client not in _SUFFIX:
        _SUFFIX[client] = own_suffix(client)
    return _SUFFIX[client]


def cookie_value(kind, ref_sid, client):
    """cookie text of the given kind for `client`, relative to an earlier session id ref_sid (None = kind not expressible)"""
    suf = suffix_of(client)
    if kind == 'none':
        return None
    if kind == 'sid':
        return ref_sid
    if kind == 'empty':
        return ''
    if kind == 'forged-plain':
        return 'f' * 32
    if kind == 'sid-extended':
        return ref_sid + 'x'
    head = ref_sid.split('/', 1)[0]
    if kind == 'uuid-only':
        return head
    if kind == 'forged-foreign-fp':
        return 'f' * 32 + '/' + '0' * 40
    if suf is None:
        return None
    if kind == 'transplant':
        return head + '/' + suf
    if kind == 'forged-own-fp':
        return 'f' * 32 + '/' + suf
    raise ValueError(kind)


def relation(c_last, c_owner):
    dip, dag = c_last[0] != c_owner[0], c_last[1] != c_owner[1]
    if dip and dag:
        return 'other-address-and-agent'
    if dip:
        return 'other-address'
    if dag:
        return 'other-agent'
    return 'same-client'


def run_session(scn):
    """scn = {'owners': [client index...], 'last': client index, 'cookie': kind, 'ref': index of the owner the cookie refers to}

    Every owner makes a cookieless request and stores a secret; then the last request is made.  -> (observation, bad)"""
    w = SessionWorld()
    bad = []
    try:
        owners = []
        for i, ci in enumerate(scn['owners']):
            sid, seen, n = w.request(CLIENTS[ci], None, store='secret-%d' % i, shared=scn.get('shared', False))
            if sid is None:
                return ('no-session',), [('harness', 'Sessions did not attach a session')]
            if seen:
                bad.append(('session:first-request:data-visible', 'a cookieless request saw %r' % (seen,)))
            if any(sid == o[0] for o in owners):
                bad.append(('session:no-cookie:id-reused', 'cookieless request %d got the existing id %r' % (i, sid)))
            owners.append((sid, CLIENTS[ci], 'secret-%d' % i))
        last = CLIENTS[scn['last']]
        ref = owners[scn['ref']]
        cookie = cookie_value(scn['cookie'], ref[0], last)
        if cookie is None and scn['cookie'] != 'none':
            return ('inexpressible',), bad
        sid, seen, n = w.request(last, cookie, shared=scn.get('shared', False))
        # reference: the data visible to this request
        match = [o for o in owners if o[0] == cookie]
        entitled = [o for o in match if o[1] == last]
        existing = [o[0] for o in owners]
        adopted = False
        if entitled:
            exp = {'secret': entitled[0][2]}
            if seen != exp:
                bad.append(('session:own-sid:own-data-missing', 'owner presenting its id %r saw %r, expected %r' % (cookie, seen, exp)))
            if sid != cookie:
                bad.append(('session:own-sid:id-changed', 'owner presenting its id %r was given %r' % (cookie, sid)))
            rel = 'owner'
        else:
            rel = ('sid+' + relation(last, match[0][1])) if match else ('no-cookie' if cookie is None else 'unissued-cookie')
            if seen:
                bad.append(('session:%s:data-visible' % rel, 'request from %r with cookie %r saw %r stored by %r'
                            % (last, cookie, seen, [o[1] for o in owners if o[2] in seen.values()])))
            elif sid in existing:
                bad.append(('session:%s:id-reused' % rel, 'request from %r with cookie %r was given the existing id %r' % (last, cookie, sid)))
            suf = suffix_of(last)
            own_fp = cookie is not None and suf is not None and '/' in cookie and cookie.split('/', 1)[1] == suf
            if sid in existing:
                pass                    # already reported as id-reused
            elif sid == cookie and own_fp:
                adopted = True          # never-issued id with the client's own fingerprint: counted, not judged
            elif sid == cookie:
                bad.append(('session:%s:id-not-fresh' % rel, 'request from %r kept the presented, never issued id %r' % (last, cookie)))
        obs = (rel, bool(seen), sid == cookie, n, adopted)
        return obs, bad
    finally:
        w.close()


def session_scenarios(tier):
    nc = len(CLIENTS)
    for a in range(nc):
        for last in range(nc):
            for kind in COOKIE_KINDS:
                yield {'owners': [a], 'last': last, 'cookie': kind, 'ref': 0}
                if CLIENTS[a][0] == CLIENTS[last][0]:
                    # ... and both requests over one connection (the same socket object)
                    yield {'owners': [a], 'last': last, 'cookie': kind, 'ref': 0, 'shared': True}
    if tier == 'thorough':
        for a in range(nc):
            for b in range(nc):
                for last in range(nc):
                    for kind in COOKIE_KINDS:
                        for ref in (0, 1):
                            if kind in ('none', 'empty', 'forged-plain', 'forged-foreign-fp', 'forged-own-fp') and ref == 1:
                                continue
                            yield {'owners': [a, b], 'last': last, 'cookie': kind, 'ref': ref}
    else:
        # quick: three-request sequences for two fixed first owners
        for a in (1, 2):
            for b in range(nc):
                for last in range(nc):
                    for kind in ('sid', 'transplant'):
                        for ref in (0, 1):
                            yield {'owners': [a, b], 'last': last, 'cookie': kind, 'ref': ref}


def session_unit(scn, st, want_sample):
    obs, bad = run_session(scn)
    st.executions += 1
    st.transitions += len(scn['owners']) + 1
    st.outcome(('sess', obs))
    st.counters['sess_' + str(obs[0]).split('+')[0].replace('-', '_')] += 1
    if len(obs) > 4 and obs[4]:
        st.counters['sess_unissued_id_with_own_fingerprint_adopted'] += 1
    if len(obs) > 1 and obs[0] == 'owner':
        st.counters['sess_owner_sees_own_data'] += 1
    if len(obs) > 3 and obs[0] != 'owner' and obs[3] >= 1:
        st.counters['sess_fresh_id_drawn_from_scripted_uuid'] += 1
    if scn['cookie'] != 'none':
        st.interesting(('sess', repr(scn)))
    for sig, msg in bad:
        st.fail(sig, '%s  [scenario %r, clients %r]' % (msg, scn, [CLIENTS[i] for i in scn['owners']] + [CLIENTS[scn['last']]]),
                {'family': 'sess', 'scenario': scn})
    if want_sample:
        st.sample({'family': 'sess', 'scenario': scn, 'clients': [list(CLIENTS[i]) for i in scn['owners']] + [list(CLIENTS[scn['last']])],
                   'observed': list(obs)})


# =============================================================================================
# virtual hosts family

DOMAINS = {'a.example': 'a', 'b.example': 'b/sub', 'c.example': 'c'}
GATEWAYS = [('list', []), ('list', ['10.0.0.1']), ('tuple', ['10.0.0.1', '10.0.0.2']), ('set', ['10.0.0.1']), ('none', None)]
REMOTES = ['10.0.0.1', '10.0.0.2', '10.0.0.12', '192.168.0.9']
XFHS = [None, 'b.example', 'B.example, c.example', 'c.example,b.example', ' b.example ', '', ', b.example', 'unknown.example']
HOSTS = ['a.example', 'b.example', 'unknown.example', None, '']     # None: the request has no Host header at all (HTTP/1.0)
PATHS = ['/', '/x', '/x/y/']


def gateways_arg(g):
    kind, val = g
    if kind == 'none':
        return None
    return {'list': list, 'tuple': tuple, 'set': set}[kind](val)


def route(g, remote, xfh, host, path):
    m = Manager()
    VirtualHosts(dict(DOMAINS), gateways_arg(g)).register(m)
    for _ in range(3):
        m.flush()
    headers = [('Host', host)] if host is not None else []
    if xfh is not None:
        headers.append(('X-Forwarded-Host', xfh))
    req, res = make_request(remote, 'GET', path, headers)
    m.fire(request_event(req, res), 'web')
    for _ in range(4):
        m.flush()
    return req.path


def vhost_scenarios():
    for gi in range(len(GATEWAYS)):
        for remote in REMOTES:
            for xi in range(1, len(XFHS)):
                for host in HOSTS:
                    for path in PATHS:
                        yield {'gw': gi, 'remote': remote, 'xfh': xi, 'host': host, 'path': path}


def run_vhost(scn):
    g = GATEWAYS[scn['gw']]
    with_h = route(g, scn['remote'], XFHS[scn['xfh']], scn['host'], scn['path'])
    without = route(g, scn['remote'], None, scn['host'], scn['path'])
    bad = []
    influenced = with_h != without
    if g[0] == 'none':
        cls = 'unconfigured'
    elif scn['remote'] in g[1]:
        cls = 'trusted'
    else:
        cls = 'untrusted'
        if influenced:
            bad.append(('vhost:untrusted-remote:forwarded-host-honoured',
                        'trusted_gateways=%r, remote %s, Host %r: X-Forwarded-Host %r changed the routed path %r -> %r'
                        % (gateways_arg(g), scn['remote'], scn['host'], XFHS[scn['xfh']], without, with_h)))
    return (cls, influenced, with_h, without), bad


def vhost_unit(scn, st, want_sample):
    obs, bad = run_vhost(scn)
    st.executions += 2
    st.transitions += 2
    st.outcome(('vhost', scn['gw'], obs))
    st.counters['vhost_%s%s' % (obs[0], '_influenced' if obs[1] else '_not_influenced')] += 1
    st.interesting(('vhost', repr(scn)))
    for sig, msg in bad:
        st.fail(sig, msg, {'family': 'vhost', 'scenario': scn})
    if want_sample:
        st.sample({'family': 'vhost', 'trusted_gateways': repr(gateways_arg(GATEWAYS[scn['gw']])), 'remote': scn['remote'],
                   'X-Forwarded-Host': XFHS[scn['xfh']], 'Host': scn['host'], 'path': scn['path'],
                   'routed_with_header': obs[2], 'routed_without': obs[3], 'class': obs[0]})


# =============================================================================================
# driver


def quick_configs():
    """quick: every table x realm x method x encrypt with the dict wrapper, plus both callables for the largest table"""
    for cfg in configs():
        ti, wi, ri, mi, ei = cfg
        if wi == 0 or (ti == 2 and ri == 0):
            yield cfg


def work_units(tier):
    cfgs = list(configs()) if tier == 'thorough' else list(quick_configs())
    units = [('auth', (cfg, user)) for cfg in cfgs for user in HEADER_USERS]
    sess = list(session_scenarios(tier))
    units += [('sess', sess[i:i + 40]) for i in range(0, len(sess), 40)]
    vh = list(vhost_scenarios())
    units += [('vhost', vh[i:i + 60]) for i in range(0, len(vh), 60)]
    return units, len(cfgs), len(sess), len(vh)


_TIER = ['quick']


def _work(items):
    core.quiet_stderr()
    st = core.Stats()
    for family, payload, sample in items:
        if family == 'auth':
            auth_unit(payload, st, _TIER[0], sample)
        elif family == 'sess':
            for i, scn in enumerate(payload):
                session_unit(scn, st, sample and i == 7)
        else:
            for i, scn in enumerate(payload):
                vhost_unit(scn, st, sample and i == 11)
    return st


def run(tier, seed, workers):
    _TIER[0] = tier
    units, ncfg, nsess, nvh = work_units(tier)
    order = core.seeded_order(len(units), seed)
    # samples: the first unit of each family in the (seed-permuted) order
    firsts = {}
    for pos in order:
        firsts.setdefault(units[pos][0], pos)
    # big auth units first for load balance, order inside each class permuted by the seed
    order.sort(key=lambda i: units[i][0] != 'auth')
    items = [(units[i][0], units[i][1], firsts[units[i][0]] == i) for i in order]
    st = core.parallel_items(_work, items, workers, chunk=1)

    # determinism: one case of each family twice
    cfg = (2, 0, 0, 0, 0)
    spec = dspec('ghost', 'None')
    text = auth_verdict(cfg, spec, 'check_auth')[0]
    if call_entry(cfg, text, 'check_auth') != call_entry(cfg, text, 'check_auth'):
        st.selfcheck_errors.append('determinism: two runs of one auth case differ')
    scn = {'owners': [1], 'last': 5, 'cookie': 'sid', 'ref': 0}
    if run_session(scn)[0] != run_session(scn)[0]:
        st.selfcheck_errors.append('determinism: two runs of one session scenario differ')
    vs = {'gw': 1, 'remote': '10.0.0.1', 'xfh': 1, 'host': 'a.example', 'path': '/x'}
    if run_vhost(vs)[0] != run_vhost(vs)[0]:
        st.selfcheck_errors.append('determinism: two runs of one vhost case differ')

    # self-test of the reference Digest implementation against the worked example of RFC 2617 section 3.5
    rfc = rfc2617_response('Mufasa', 'testrealm@host.com', 'Circle Of Life', 'GET', '/dir/index.html',
                           'dcd98b7102dd2f0e8b11d0f600bfb0c093', '00000001', '0a4f113b', 'auth', None, '2617')
    if rfc != '6629fae49393a05397450978507c4ef1':
        st.selfcheck_errors.append('reference RFC 2617 implementation does not reproduce the RFC example: %s' % rfc)

    st.states = len(st.outcomes)
    st.bounds = {'tier': tier, 'auth_configurations': ncfg, 'header_users': len(HEADER_USERS), 'entry_points': len(ENTRY_POINTS),
                 'digest_dimensions': {'qop': len(QOPS), 'nc_cnonce': len(NCCS), 'algorithm': len(ALGS), 'realm_pairs': len(REALM_PAIRS),
                                       'hashed_method': 2, 'response_styles': 2, 'missing_subsets': 2 ** len(REQUIRED) - 1,
                                       'full_cross_product': tier == 'thorough'},
                 'basic_spellings': len(BASIC_FORMS), 'raw_values': len(RAW_VALUES),
                 'session_clients': len(CLIENTS), 'session_cookie_kinds': len(COOKIE_KINDS), 'session_sequences': nsess,
                 'session_max_requests': 3, 'vhost_cases': nvh}
    c = st.counters
    for name, what in (('auth_accept', 'no header the reference must accept'), ('auth_refuse', 'no header the reference must refuse'),
                       ('auth_granted', 'circuits never granted access'), ('sess_owner_sees_own_data', 'no owner ever saw its data'),
                       ('sess_sid', 'no foreign client ever presented an existing sid'),
                       ('vhost_untrusted_not_influenced', 'no untrusted remote sent a forwarded host')):
        if not c[name] and not (name == 'vhost_untrusted_not_influenced' and c['vhost_untrusted_influenced']):
            st.selfcheck_errors.append('vacuity: ' + what)
    if not c['vhost_trusted_influenced']:
        st.notes.append('X-Forwarded-Host from a trusted gateway never changed the routing (feature absent?) - not judged')
    if any(suffix_of(cl) is None for cl in CLIENTS[:1]):
        st.notes.append('session ids have no "/fingerprint" suffix: transplant / forged-own-fp cookies not expressible')
    return st


def replay(wit):
    fam = wit['family']
    if fam == 'auth':
        cfg = tuple(wit['cfg'])
        spec, entry = wit['spec'], wit['entry']
        text, verdict, reason, user = auth_verdict(cfg, spec, entry)
        obs = call_entry(cfg, text, entry)
        bad = judge_auth(cfg, spec, entry, obs)
        out = ('configuration %r\nentry point %s, Authorization: %r\nreference: %s (%s)\nobserved: granted=%r request.login=%r exception=%r\n'
               % (cfg_json(cfg), entry, text, verdict, reason, obs[0], obs[1], obs[2]))
    elif fam == 'auth2':
        cfg = tuple(wit['cfg'])
        first, second, login2, exc2 = call_twice(cfg, wit['text'], wit['entry_a'], wit['entry_b'], wit['variant'])
        bad = [('second-check:granted', 'the second check granted access again')] if first and second else []
        out = ('configuration %r\n%s then %s (%s) on one request object, Authorization: %r\nfirst granted=%r second granted=%r login=%r exception=%r\n'
               % (cfg_json(cfg), wit['entry_a'], wit['entry_b'], wit['variant'], wit['text'], first, second, login2, exc2))
    elif fam == 'sess':
        scn = wit['scenario']
        obs, bad = run_session(scn)
        out = ('owners %r, last request from %r with cookie kind %r (refers to owner %d)\nobserved (relation, data visible, id kept, uuids drawn, adopted): %r\n'
               % ([CLIENTS[i] for i in scn['owners']], CLIENTS[scn['last']], scn['cookie'], scn['ref'], obs))
    else:
        scn = wit['scenario']
        obs, bad = run_vhost(scn)
        out = ('trusted_gateways=%r remote=%s Host=%r X-Forwarded-Host=%r path=%r\nrouted with header: %r, without: %r (%s remote)\n'
               % (gateways_arg(GATEWAYS[scn['gw']]), scn['remote'], scn['host'], XFHS[scn['xfh']], scn['path'], obs[2], obs[3], obs[0]))
    out += ''.join('VIOLATED %s: %s\n' % b for b in bad) or 'all clauses hold\n'
    return (not bad), out
