"""C05 - `complete` fires exactly once, after the whole causal closure has drained.

Engine E4: every event tree of the grammar (shape x edge kinds x node marks x variants) is executed under the
real run() (H-run driver); oracle on the ghost causality tree recorded by the generated handlers.
"""
import itertools

from mc import core, ghost

PROPERTY = 'C05'
LEVEL = 'model_checking'
RULE = ('every ordered event tree with <= N nodes (fan-out <= 2, depth <= 3 below the root) x per non-root node '
        '(edge kind: fired by the plain handler | fired by a later generator step | called with `yield self.call()` | fired after such a call returned) x (mark: none | cancelled right after '
        'firing (leaves) | stopped by its first handler | raising | without any handler (leaves)) x root mark x variants (nested complete-requesting '
        'descendant, two simultaneous roots); trees of <= 3 nodes also with declared event classes deriving from a warm base class; non-trivial = tree with >= 2 levels or any mark/generator edge; '
        'distinct = distinct program')
ASSUMPTIONS = [
    'driver: real Manager.run() in the checking thread, root event fired from a generate_events handler',
    'a cancelled event is cancelled by the handler that fired it, immediately after fire()',
    '<name>_complete events themselves are not counted as members of an enclosing closure',
]


def shapes(maxnodes):
    """ordered trees as parent vectors, node 0 = root; fan-out <= 2; depth <= 3"""
    out = []

    def grow(par):
        out.append(tuple(par))
        if len(par) >= maxnodes:
            return
        n = len(par)
        # canonical growth: new node attaches to a node >= parent of last node (keeps ordered trees unique)
        lo = par[-1] if n > 1 else 0
        for p in range(lo, n):
            if sum(1 for x in par[1:] if x == p) >= 2:
                continue
            d = 0
            q = p
            while q != 0:
                q = par[q]
                d += 1
            if d + 1 > 3:
                continue
            grow(par + [p])
    grow([None])
    return sorted(set(out), key=lambda t: (len(t), t[1:]))


EDGE = ('plain', 'gen')
MARK = ('none', 'cancel', 'stop', 'raise', 'nohandler', 'precancel')


def programs(tier):
    """(parents, edges, marks, rootmark, variant)  variant: 'single' | 'double' | 'again' | ('nested', node)"""
    maxn = 5 if tier == 'quick' else 6
    for par in shapes(maxn):
        n = len(par)
        leaves = [i for i in range(1, n) if i not in par[1:]]
        opts = []
        for i in range(1, n):
            ms = MARK if i in leaves else ('none', 'stop', 'raise')
            opts.append([(e, m) for e in EDGE for m in ms])
        for combo in itertools.product(*opts):
            edges = (None,) + tuple(c[0] for c in combo)
            marks = tuple(c[1] for c in combo)
            for rootmark in ('none', 'stop', 'raise'):
                full = (n <= 4) if tier == 'quick' else (n <= 5)
                variants = ['single']
                if full:
                    variants.append('double')
                    variants.append('again')     # the same root fired a second time after the first tree has drained completely
                    variants += [('nested', i) for i in range(1, n) if marks[i - 1] not in ('cancel', 'precancel')]
                for v in variants:
                    yield par, edges, (rootmark,) + marks, v


def programs_call(tier):
    """trees whose generator handlers also `yield self.call(child)` ('call' edge) and fire further children after the call
    returned ('post' edge: fired from the step that resumes the handler with the call's result)"""
    maxn = 4 if tier == 'quick' else 5
    kinds = ('plain', 'gen', 'call', 'post')
    for par in shapes(maxn):
        n = len(par)
        if n < 2:
            continue
        leaves = [i for i in range(1, n) if i not in par[1:]]
        opts = []
        for i in range(1, n):
            ms = ('none', 'raise', 'nohandler') if i in leaves else ('none', 'raise')
            opts.append([(e, m) for e in kinds for m in ms])
        for combo in itertools.product(*opts):
            edges = (None,) + tuple(c[0] for c in combo)
            if 'call' not in edges:
                continue        # covered by programs()
            ok = True
            for j in range(1, n):
                if edges[j] == 'post' and not any(par[k] == par[j] and edges[k] == 'call' and k < j for k in range(1, n)):
                    ok = False
            if not ok:
                continue
            marks = tuple(c[1] for c in combo)
            yield par, edges, ('none',) + marks, 'single'
    # deep sub-trees below an event fired after a call returned (what is fired there must still belong to the closure)
    for depth in (2, 3, 4):
        for first in ('call', 'gen'):
            par = [None, 0, 0] + [2 + k for k in range(depth)]
            edges = [None, first, 'post' if first == 'call' else 'gen'] + ['plain'] * depth
            for deep_edge in ('plain', 'gen'):
                e2 = list(edges)
                e2[3] = deep_edge
                yield tuple(par), tuple(e2), ('none',) * len(par), 'single'
    # ... and below the called event itself
    for depth in (3, 4, 5):
        par = [None, 0] + [1 + k for k in range(depth)]
        yield tuple(par), (None, 'call') + ('plain',) * depth, ('none',) * len(par), 'single'


def programs_side(tier):
    """events that have, next to their (possibly generator) handler, a second plain handler that raises"""
    maxn = 4 if tier == 'quick' else 5
    for par in shapes(maxn):
        n = len(par)
        opts = []
        for i in range(1, n):
            opts.append([(e, m) for e in ('plain', 'gen') for m in ('none', 'sideraise')])
        for combo in itertools.product(*opts):
            edges = (None,) + tuple(c[0] for c in combo)
            for rootmark in ('none', 'sideraise'):
                marks = (rootmark,) + tuple(c[1] for c in combo)
                if 'sideraise' not in marks:
                    continue
                yield par, edges, marks, 'single'


def programs_scale(tier):
    """large trees: wide fan-out below the root and below a generator child, long chains (hidden limits on counters or batch
    sizes would show here)"""
    sizes = (40, 150, 300) if tier == 'quick' else (40, 127, 128, 129, 150, 300, 1000)
    for n in sizes:
        # fan-out n below the root (plain), and below a child that fires them from a generator step
        yield (None,) + (0,) * n, (None,) + ('plain',) * n, ('none',) * (n + 1), 'single'
        yield (None, 0) + (1,) * n, (None, 'plain') + ('gen',) * n, ('none',) * (n + 2), 'single'
        # one cancelled / raising leaf among many
        yield (None,) + (0,) * n, (None,) + ('plain',) * n, ('none',) * n + ('cancel',), 'single'
        yield (None,) + (0,) * n, (None,) + ('gen',) * n, ('none', 'raise') + ('none',) * (n - 1), 'double'
    for depth in ((30, 100) if tier == 'quick' else (30, 100, 400)):
        par = (None,) + tuple(range(depth))
        yield par, (None,) + ('plain',) * depth, ('none',) * (depth + 1), 'single'
        yield par, (None,) + tuple('gen' if i % 3 == 0 else 'plain' for i in range(depth)), ('none',) * (depth + 1), 'again'


def build(program):
    par, edges, marks, variant = program
    n = len(par)
    handlers = []
    for i in range(n):
        if marks[i] == 'nohandler':
            continue   # nobody handles this event at all (leaves only)
        kids = [j for j in range(1, n) if par[j] == i]

        def fire(j):
            o = {}
            if marks[j] == 'cancel':
                o['cancel'] = True
            if marks[j] == 'precancel':
                o['precancel'] = True
            if isinstance(variant, tuple) and variant[1] == j:
                o['complete'] = True
            return ('fire', 'n%d' % j, o)
        pk = [fire(j) for j in kids if edges[j] == 'plain']
        gk = [fire(j) for j in kids if edges[j] == 'gen']
        ck = [('call', 'n%d' % j, fire(j)[2]) for j in kids if edges[j] == 'call']
        ok = [fire(j) for j in kids if edges[j] == 'post']
        steps = list(pk)
        if gk or ck or ok:
            if gk:
                steps += [('y', None)] + gk
            steps += ck + ok
            if marks[i] == 'raise':
                steps.append(('raise',))
            script = ('gen', steps)
        else:
            if marks[i] == 'raise':
                steps.append(('raise',))
            script = steps
        handlers.append(('h%d' % i, 'n%d' % i, 2, script))
        if marks[i] == 'sideraise':
            handlers.append(('side%d' % i, 'n%d' % i, 3, [('raise',)]))
        if marks[i] == 'stop':
            # a generator handler cannot stop its event synchronously: a separate plain handler does it
            handlers.append(('stopper%d' % i, 'n%d' % i, 1.5, [('stop',)]))
            handlers.append(('late%d' % i, 'n%d' % i, 1, [('ret', None)]))
    return handlers


def execute(program, style='create'):
    par, edges, marks, variant = program
    ghost.World.event_style = style     # 'classes': declared event classes deriving from a warm base class (see mc/ghost.py)

    def go(w):
        w.fire('n0', {'complete': True})
        if variant == 'double':
            w.fire('n0', {'complete': True})
        if variant == 'again':
            w.counted_again = getattr(w, 'counted_again', 0) + 1
    # named observers only: a catch-all observer would give every event a handler
    ghost.World.observe_names = ['n%d_complete' % i for i in range(len(par))] + ['exception']
    try:
        script = [None, go] + (['quiet', go] if variant == 'again' else [])
        big = max(1, len(par) // 10)
        w = ghost.RunWorld(build(program), script=script, horizon=(60 if variant != 'again' else 120) * big)
    finally:
        ghost.World.observe_names = None
        ghost.World.event_style = 'create'
    w.event_style = style
    w.lazy = True             # once the roots are fired the library alone decides how long the loop idles ...
    w.use_idle_double()       # ... over a double of the fall-back's wait: an unbounded wait with tasks pending is a hang
    res = w.run()
    return w, res


def judge(program, w, res):
    bad = []
    log = w.log
    if res != ('return', None):
        bad.append(('run-crashed', 'run() ended with %r' % (res,)))
        return bad
    if w.capped:
        bad.append(('no-quiescence', 'not quiescent within %d loop iterations' % w.horizon))
    if w.hung:
        bad.append(('never:idle-forever', '%s: generator handlers are only stepped again if another thread wakes the loop' % w.hung))
    cancelled = {x[1] for x in log if x[0] == 'cancel'}
    parent = {x[1]: x[3] for x in log if x[0] == 'fire'}
    typ = {x[1]: x[2] for x in log if x[0] == 'fire'}
    wants = [x[1] for x in log if x[0] == 'fire' and getattr(w.events[x[1]], 'complete', False) and x[1] not in cancelled]

    def closure(r):
        out = {r}
        grew = True
        while grew:
            grew = False
            for e, p in parent.items():
                if p in out and e not in out:
                    out.add(e)
                    grew = True
        return out
    for r in wants:
        name = typ[r] + '_complete'
        pos = [i for i, x in enumerate(log) if x[0] == 'obs' and x[1] == name and x[2] == r]
        members = closure(r) - cancelled
        last = max([i for i, x in enumerate(log) if x[0] in ('enter', 'exit', 'step', 'val', 'evstop') and x[2] in members] or [-1])
        has_cancel = bool(closure(r) & cancelled)
        has_gen = any(log[i][0] == 'step' and log[i][2] in members for i in range(len(log)))
        if len(pos) == 0:
            why = 'cancelled-descendant' if has_cancel else ('generator-raise' if any(
                x[0] == 'exit' and x[3] == 'raise' and x[2] in members and x[1] in gen_hids(program) for x in log) else 'other')
            bad.append(('never:' + why, '%s for e%d never fired although its closure drained (members %r, cancelled %r)'
                        % (name, r, sorted(members), sorted(closure(r) & cancelled))))
        elif len(pos) > 1:
            bad.append(('twice', '%s for e%d fired %d times' % (name, r, len(pos))))
        elif log[pos[0]][4] is None or log[pos[0]][4][0] is not True:
            bad.append(('args', '%s for e%d does not carry the completed event as its first argument (%r)' % (name, r, log[pos[0]][4])))
        elif pos[0] < last:
            late = log[last]
            bad.append(('early:' + ('generator-step' if has_gen else 'plain'),
                        '%s for e%d dispatched at log index %d, but %r (member of its closure) happened at %d'
                        % (name, r, pos[0], late, last)))
    for i, m in enumerate(program[2]):
        if m == 'stop' and any(x[0] == 'enter' and x[1] == 'late%d' % i for x in log):
            bad.append(('harness', 'stop mark did not stop'))
    return bad


def gen_hids(program):
    par, edges, marks, variant = program
    return {'h%d' % par[j] for j in range(1, len(par)) if edges[j] in ('gen', 'call', 'post')}


def pj(program):
    return {'parents': list(program[0]), 'edges': list(program[1]), 'marks': list(program[2]),
            'variant': list(program[3]) if isinstance(program[3], tuple) else program[3]}


def from_json(wj):
    v = wj['variant']
    return (tuple(wj['parents']), tuple(wj['edges']), tuple(wj['marks']), tuple(v) if isinstance(v, list) else v)


def _work(part, nparts, payload):
    tier, seed = payload
    core.quiet_stderr()
    st = core.Stats()
    for idx, program in enumerate(itertools.islice(itertools.chain(programs_scale(tier), programs(tier), programs_call(tier), programs_side(tier)), part, None, nparts)):
        w, res = execute(program)
        st.executions += 1
        st.transitions += len(w.log)
        bad = judge(program, w, res)
        if len(program[0]) <= 3:
            w2, res2 = execute(program, 'classes')
            st.executions += 1
            st.counters['programs_also_run_with_declared_event_classes'] += 1
            bad = bad + [(k + ':event-classes', t + ' [events are instances of declared classes with a common, warm base class]')
                         for k, t in judge(program, w2, res2) if (k, t) not in bad]
        st.outcome(tuple(x for x in w.log if x[0] in ('obs', 'enter', 'step')))
        if len(program[0]) > 2 or any(m != 'none' for m in program[2]) or 'gen' in program[1]:
            st.interesting(program)
        if 'cancel' in program[2] or 'precancel' in program[2]:
            st.counters['programs_with_cancelled_descendant'] += 1
        if 'nohandler' in program[2]:
            st.counters['programs_with_handlerless_descendant'] += 1
        if 'gen' in program[1]:
            st.counters['programs_firing_from_generator_steps'] += 1
        if 'call' in program[1]:
            st.counters['programs_with_call_edges'] += 1
        if 'sideraise' in program[2]:
            st.counters['programs_with_raising_handler_next_to_generator_handler'] += 1
        if part == seed % nparts and idx in (3, 400):
            st.sample({'program': pj(program), 'log': [list(x) for x in w.log][:50]})
        for kind, text in bad:
            st.fail(kind, '%s [program %r]' % (text, pj(program)), pj(program))
    return st


def run(tier, seed, workers):
    total = sum(2 if len(p[0]) <= 3 else 1 for p in itertools.chain(programs(tier), programs_call(tier), programs_side(tier), programs_scale(tier)))
    st = core.parallel(_work, (tier, seed), workers, nparts=workers * 8)
    probe = ((None, 0, 1), (None, 'gen', 'plain'), ('none', 'none', 'stop'), 'single')
    if execute(probe)[0].log != execute(probe)[0].log:
        st.selfcheck_errors.append('determinism: two runs differ')
    if st.executions != total:
        st.selfcheck_errors.append('enumeration: %d of %d' % (st.executions, total))
    st.states = len(st.outcomes)
    st.bounds = {'programs': total, 'max_nodes': 5 if tier == 'quick' else 6, 'fanout': 2, 'depth_below_root': 3}
    for c in ('programs_with_cancelled_descendant', 'programs_firing_from_generator_steps'):
        if not st.counters[c]:
            st.selfcheck_errors.append('vacuity: ' + c)
    return st


def replay(wj):
    program = from_json(wj)
    w, res = execute(program)
    bad = judge(program, w, res)
    if not bad and len(program[0]) <= 3:
        w, res = execute(program, 'classes')
        bad = [(k + ':event-classes', t) for k, t in judge(program, w, res)]
    text = 'program %r\nrun() -> %r\nlog:\n  %s\n' % (pj(program), res, '\n  '.join(map(repr, w.log)))
    text += ''.join('VIOLATED %s: %s\n' % b for b in bad) or 'all clauses hold\n'
    return (not bad), text
