"""C02 - dispatch order: priority then FIFO per pass; handler priority; stop().

Engine E4: every program of a finite grammar is executed on a fresh real Manager; the oracle is the
set of order constraints of the property statement evaluated on the ghost dispatch log.

Program = (hA, hB, hC, externals, mid)
  three event types A, B, C; A-handlers may fire B, B-handlers may fire C (nesting <= 2)
  hX        = tuple of (handler priority, body); 1 or 2 handlers, distinct priorities (also sys.maxsize - 1 and sys.maxsize)
  body      = 'nop' | 'stop' | ('fire', priority) | 'stopgen' (stop, return a generator)
              | ('refire', 'stopfirst'|'firefirst'|'nostop', priority): queue the SAME event object again, once (re-fire family)
  externals = 1..3 fires (type, priority) issued from outside before the first flush()
  mid       = None | (type, priority): one more external fire between the first and second flush()
The driver calls flush() until the queue is empty (horizon 12 passes).
"""
import itertools

from circuits.core.events import Event
from circuits.core.handlers import handler
from circuits.core.manager import Manager

from mc import core

PROPERTY = 'C02'
LEVEL = 'model_checking'
RULE = ('every program of the grammar in checks/c02_order.py (handler sets x bodies x external fires x mid-fire) '
        'is executed once on a fresh real Manager; a case is non-trivial when at least two events were queued '
        'together at the start of some pass with different (priority, fire-order) keys or a stop()/nested fire '
        'was executed; distinct = distinct program')
ASSUMPTIONS = [
    'handlers of one event have pairwise distinct priorities (equal priorities are unconstrained by the property)',
    'handlers do not call flush() themselves (outside the property quantifier)',
    'single-threaded driver: fire() and flush() are called by the checking thread only',
]

EPRIO = (-1, 0, 0.5, 2)
HORIZON = 12
BIG = 2 ** 63 - 1      # sys.maxsize


def handler_sets(bodies, pairs):
    out = [((0, b),) for b in bodies]
    for lo, hi in pairs:
        for b1 in bodies:
            for b2 in bodies:
                out.append(((lo, b1), (hi, b2)))
    return out


def grammar(tier):
    if tier == 'quick':
        bodies_a = ['nop', 'stop'] + [('fire', p) for p in EPRIO]
        bodies_b = ['nop', 'stop'] + [('fire', p) for p in (-1, 0, 2)]
        bodies_c = ['nop', 'stop', 'stopgen']
        h_a = handler_sets(bodies_a, [(0, 1)])
        h_b = handler_sets(bodies_b, [(-1, 2.5)])
        h_c = [((0, 'nop'),), ((0, 'nop'), (1, 'stop')), ((0, 'nop'), (1, 'stopgen'))]
        ext1 = [('A', p) for p in EPRIO] + [('B', 0), ('B', 2)]
        mids = [None, ('A', -1), ('A', 2), ('B', 0)]
        ext3 = [('A', -1), ('A', 2), ('B', 0)]
    else:
        bodies_a = ['nop', 'stop'] + [('fire', p) for p in EPRIO]
        bodies_b = ['nop', 'stop'] + [('fire', p) for p in EPRIO]
        bodies_c = ['nop', 'stop', 'stopgen']
        h_a = handler_sets(bodies_a, [(0, 1), (-1, 2.5)])
        h_b = handler_sets(bodies_b, [(-1, 2.5)])
        h_c = handler_sets(bodies_c, [(0, 1)])
        ext1 = [('A', p) for p in EPRIO] + [('B', p) for p in (-1, 0, 2)] + [('C', 0)]
        mids = [None, ('A', -1), ('A', 2), ('B', 0), ('C', 2)]
        ext3 = [('A', -1), ('A', 0), ('A', 0.5), ('A', 2), ('B', 0), ('B', -1)]
    # "run me first": adjacent priorities next to sys.maxsize - different numbers, though equal once rounded to a float
    h_a = h_a + [((BIG - 1, b1), (BIG, b2)) for b1 in ('nop', 'stop') for b2 in ('nop', 'stop')]
    exts = []
    for n in (1, 2):
        exts.extend(itertools.product(ext1, repeat=n))
    exts.extend(itertools.product(ext3, repeat=3))
    return h_a, h_b, h_c, exts, mids


class Run:
    """One execution of a program on the real code, with ghost logging."""

    def __init__(self, program, mode=0):
        self.program = program
        self.mode = mode      # 0: one channel; 1/2: the two handlers of a type listen on different channels and the event is
        #                       fired to both, in the order (cx, cy) / (cy, cx) - handler priority must still decide the order
        h_a, h_b, h_c, externals, mid = program[:5]
        self.split = {}
        self.m = Manager()
        self.log = []        # ('fire', eid, typ, prio, pass_no, by) | ('h', eid, hprio) | ('stopcall', eid, hprio)
        self.depth = 0
        self.maxdepth = 0
        self.events = {}     # eid -> event object (kept alive: identity, never id())
        self.meta = {}       # eid -> (typ, prio, fireseq)
        self.passno = 0
        self.current = None
        self.refired = set()
        nxt = {'A': 'B', 'B': 'C', 'C': None}
        for typ, hs in (('A', h_a), ('B', h_b), ('C', h_c)):
            self.split[typ] = bool(self.mode and len(hs) == 2)
            for i, (hp, body) in enumerate(hs):
                chan = ('cx', 'cy')[i] if self.split[typ] else None
                self.m.addHandler(self.make_handler(typ, i, hp, body, nxt[typ], chan))

    def make_handler(self, typ, i, hp, body, nxt, chan=None):
        run = self

        def fn(self, event):
            run.depth += 1
            run.maxdepth = max(run.maxdepth, run.depth)
            run.log.append(('h', event.eid, hp))
            if body == 'stop':
                run.log.append(('stopcall', event.eid, hp))
                event.stop()
            elif body == 'stopgen':
                # stops the event and hands back a generator (e.g. the result of another coroutine): still a stop
                run.log.append(('stopcall', event.eid, hp))
                event.stop()
                run.depth -= 1
                return (x for x in ())
            elif body[0] == 'refire':
                # a "not now, look at it again in the next pass" gate: the SAME event object is queued again, once
                _, how, prio = body
                if event.eid not in run.refired:
                    run.refired.add(event.eid)
                    if how == 'stopfirst':
                        run.log.append(('stopcall', event.eid, hp))
                        event.stop()
                    run.fire_again(event, prio)
                    if how == 'firefirst':
                        run.log.append(('stopcall', event.eid, hp))
                        event.stop()
            elif body != 'nop':
                run.fire(nxt, body[1], by=event.eid)
            run.depth -= 1

        fn.__name__ = 'gh_%s_%d' % (typ, i)
        kw = {} if hp == 0 else {'priority': hp}       # priority 0 is the default: declared the way applications do, without it
        if chan:
            kw['channel'] = chan
        return handler(typ, **kw)(fn)

    def fire(self, typ, prio, by=None):
        e = Event.create(typ)
        e.eid = len(self.events)
        self.events[e.eid] = e
        self.meta[e.eid] = (typ, prio, e.eid)
        self.log.append(('fire', e.eid, typ, prio, self.passno, by))
        kw = {} if prio == 0 else {'priority': prio}     # (priority 0 is the default of fire())
        if self.split.get(typ):
            chans = ('cx', 'cy') if self.mode == 1 else ('cy', 'cx')
            self.m.fire(e, *chans, **kw)
        else:
            self.m.fire(e, **kw)
        return e

    def fire_again(self, event, prio):
        typ = self.meta[event.eid][0]
        self.log.append(('fire', event.eid, typ, prio, self.passno, event.eid))
        if self.split.get(typ):
            chans = ('cx', 'cy') if self.mode == 1 else ('cy', 'cx')
            self.m.fire(event, *chans, priority=prio)
        else:
            self.m.fire(event, priority=prio)

    def execute(self):
        _h_a, _h_b, _h_c, externals, mid = self.program[:5]
        for typ, prio in externals:
            self.fire(typ, prio)
        quiescent = False
        for n in range(HORIZON):
            if not len(self.m):
                quiescent = True
                break
            self.passno = n + 1
            self.log.append(('pass', self.passno))
            self.m.flush()
            self.log.append(('endpass', self.passno))
            if n == 0 and mid is not None:
                self.fire(mid[0], mid[1])
        else:
            quiescent = not len(self.m)
        self.quiescent = quiescent
        return self.log


def judge(program, log, maxdepth, quiescent):
    """Oracle: the constraints of the statement on the ghost log.  Returns list of (kind, text).

    An event object may be queued more than once (body 'refire'); every queued instance is one dispatch."""
    h_a, h_b, h_c, _ext, _mid = program[:5]
    hsets = {'A': h_a, 'B': h_b, 'C': h_c}
    bad = []
    typ_of = {}
    queued = []      # instances (eid, prio, seq) fired and not yet dispatched (ghost)
    dispatches = {}  # eid -> list of dicts {runs: [hprio...], stopped_before: bool, stop: hprio or None}
    seen_in_pass = set()
    stops = {}       # eid -> hprio of the first stop() ever called on the object
    batch_pending = None
    in_pass = False
    nontrivial = False
    nfired = {}
    for idx, ent in enumerate(log):
        k = ent[0]
        if k == 'fire':
            _, eid, typ, prio, _p, by = ent
            typ_of[eid] = typ
            queued.append((eid, prio, idx))
            nfired[eid] = nfired.get(eid, 0) + 1
            if by is not None:
                nontrivial = True
        elif k == 'pass':
            in_pass = True
            seen_in_pass = set()
            batch_pending = sorted(queued, key=lambda e: (e[1], e[2]))
            if len({e[1] for e in queued}) > 1:
                nontrivial = True
        elif k == 'endpass':
            in_pass = False
        elif k == 'h':
            _, eid, hp = ent
            if not in_pass:
                bad.append(('reentrant', 'handler of e%d ran outside a flush pass (fire() dispatched immediately)' % eid))
            if eid not in seen_in_pass:
                seen_in_pass.add(eid)
                inst = next((q for q in queued if q[0] == eid), None)
                if inst is None:
                    bad.append(('dup', 'e%d dispatched again although no queued instance of it is left' % eid))
                else:
                    queued.remove(inst)
                    if batch_pending is not None and inst in batch_pending:
                        # (1) batch order
                        if batch_pending[0] != inst:
                            exp = batch_pending[0]
                            bad.append(('order', 'e%d %r dispatched before e%d %r although both were queued when the pass began'
                                        % (eid, (typ_of[eid], inst[1]), exp[0], (typ_of[exp[0]], exp[1]))))
                        batch_pending.remove(inst)
                    else:
                        # (2) fired during this pass: all batch events must be done
                        if batch_pending:
                            bad.append(('overtake', 'e%d fired during the pass was dispatched before e%d which was queued when the pass began'
                                        % (eid, batch_pending[0][0])))
                dispatches.setdefault(eid, []).append({'runs': [], 'stopped_before': eid in stops, 'stop': None})
            dispatches[eid][-1]['runs'].append(hp)
            if eid in stops and hp < stops[eid]:
                bad.append(('stop', 'e%d: handler of priority %r ran although priority %r had called stop() on it' % (eid, hp, stops[eid])))
        elif k == 'stopcall':
            _, eid, hp = ent
            stops.setdefault(eid, hp)
            if dispatches.get(eid) and dispatches[eid][-1]['stop'] is None:
                dispatches[eid][-1]['stop'] = hp
            nontrivial = True
    if maxdepth > 1:
        bad.append(('reentrant', 'handler nesting depth %d: fire() ran a handler re-entrantly' % maxdepth))
    if not quiescent:
        bad.append(('horizon', 'queue not empty after %d passes' % HORIZON))
    for eid, typ in typ_of.items():
        ds = dispatches.get(eid, [])
        allp = sorted((hp for hp, _b in hsets[typ]), reverse=True)
        if quiescent and len(ds) < nfired[eid]:
            bad.append(('lost', 'e%d (%s) was queued %d time(s) but dispatched %d time(s)' % (eid, typ, nfired[eid], len(ds))))
        for d in ds:
            runs = d['runs']
            if sorted(runs, reverse=True) != runs:
                bad.append(('hprio', 'handlers of e%d ran in priority order %r, expected descending' % (eid, runs)))
                continue
            if len(set(runs)) != len(runs):
                bad.append(('dup', 'a handler of e%d ran more than once in one dispatch: %r' % (eid, runs)))
                continue
            if d['stopped_before']:
                continue     # an already stopped object dispatched again: only "nothing below the stopper" is demanded (checked above)
            expect = [p for p in allp if p >= d['stop']] if d['stop'] is not None else allp
            if runs != expect:
                if d['stop'] is not None and len(runs) > len(expect):
                    bad.append(('stop', 'e%d: handlers %r ran although priority %r called stop()' % (eid, runs, d['stop'])))
                else:
                    bad.append(('handlers', 'e%d: handlers run %r, expected %r' % (eid, runs, expect)))
    return bad, nontrivial


def run_one(program, mode=0):
    r = Run(program, mode)
    log = r.execute()
    return log, r.maxdepth, r.quiescent


def program_json(program):
    return {'hA': program[0], 'hB': program[1], 'hC': program[2], 'externals': program[3], 'mid': program[4]}


def _listify(x):
    if isinstance(x, (list, tuple)):
        return tuple(_listify(i) for i in x)
    return x


def program_from_json(w):
    return (_listify(w['hA']), _listify(w['hB']), _listify(w['hC']), _listify(w['externals']),
            _listify(w['mid']) if w['mid'] is not None else None)


def _work(part, nparts, payload):
    tier, seed = payload
    core.quiet_stderr()
    h_a, h_b, h_c, exts, mids = grammar(tier)
    st = core.Stats()
    space = itertools.product(h_a, h_b, h_c, exts, mids)
    pick = {0, 1000 + seed % 997}
    for i, program in enumerate(itertools.islice(space, part, None, nparts)):
        log, maxdepth, quiescent = run_one(program)
        st.executions += 1
        st.transitions += sum(1 for e in log if e[0] == 'h')
        bad, nontrivial = judge(program, log, maxdepth, quiescent)
        obs = tuple(e for e in log if e[0] in ('h', 'pass'))
        st.outcome(obs)
        if nontrivial:
            st.interesting(program)
            st.counters['programs_with_mixed_priority_batch_or_nested_fire_or_stop'] += 1
        if any(e[0] == 'fire' and e[5] is not None for e in log):
            st.counters['programs_firing_from_handlers'] += 1
        if part == seed % nparts and i in pick:
            st.sample({'program': program_json(program), 'log': [list(e) for e in log][:40]})
        for kind, text in bad:
            st.fail(kind, text, program_json(program))
    # multi-channel family: reduced grammar, the two handlers of a type on different channels
    for mode in (1, 2):
        space = itertools.product([h for h in h_a if len(h) == 2], [h for h in h_b if len(h) == 2][::3], h_c[-1:],
                                  [x for x in exts if len(x) <= 2][::2], mids[:2])
        for i, program in enumerate(itertools.islice(space, part, None, nparts)):
            log, maxdepth, quiescent = run_one(program, mode)
            st.executions += 1
            st.counters['multi_channel_programs'] += 1
            st.transitions += sum(1 for e in log if e[0] == 'h')
            bad, nontrivial = judge(program, log, maxdepth, quiescent)
            st.outcome(('mc', mode, tuple(e for e in log if e[0] in ('h', 'pass'))))
            st.interesting(('mc', mode, program))
            for kind, text in bad:
                st.fail('multichannel:' + kind, text + ' [handlers on channels cx/cy, fired to %s]' % (('cx,cy') if mode == 1 else 'cy,cx'),
                        dict(program_json(program), mode=mode))
    # re-fire family: a handler queues the SAME event object again (once), before / after / without stop()
    for i, program in enumerate(itertools.islice(refire_space(tier, h_b, exts, mids), part, None, nparts)):
        log, maxdepth, quiescent = run_one(program)
        st.executions += 1
        st.counters['refire_programs'] += 1
        st.transitions += sum(1 for e in log if e[0] == 'h')
        bad, nontrivial = judge(program, log, maxdepth, quiescent)
        st.outcome(('rf', tuple(e for e in log if e[0] in ('h', 'pass'))))
        st.interesting(('rf', program))
        for kind, text in bad:
            st.fail('refire:' + kind, text + ' [a handler re-fires the event object it is handling]', program_json(program))
    # big batches: many events queued when a pass begins (priority and FIFO hold for the whole batch, whatever its size)
    for i, program in enumerate(itertools.islice(big_batch_space(tier), part, None, nparts)):
        log, maxdepth, quiescent = run_one(program)
        st.executions += 1
        st.counters['big_batch_programs'] += 1
        st.transitions += sum(1 for e in log if e[0] == 'h')
        bad, nontrivial = judge(program, log, maxdepth, quiescent)
        st.outcome(('big', len(program[3]), tuple(e[1] for e in log if e[0] == 'h')[:40]))
        st.interesting(('big', len(program[3]), program[3][:8], program[3][-3:]))
        for kind, text in bad[:3]:
            st.fail('big-batch:' + kind, text + ' [%d events queued before the pass; priorities %r ... %r]' % (len(program[3]), [p for _t, p in program[3][:6]], [p for _t, p in program[3][-3:]]),
                    {'big': True, 'n': len(program[3]), 'pattern': program[5]})
    for i, case in enumerate(itertools.islice(adopt_cases(), part, None, nparts)):
        got, want = run_adopt(case)
        st.executions += 1
        st.counters['adoption_programs'] += 1
        st.outcome(('adopt', case, tuple(got)))
        st.interesting(('adopt', case))
        if got != want:
            st.fail('adopt:order', 'events fired on a component (used %d times as its own root) before it was registered with a root (used %d times, %d events '
                    'queued), then on that root: dispatched in order %r, priority then fire order gives %r [priorities %r]'
                    % (case[0], case[1], case[2], got, want, case[3]), {'adopt': [case[0], case[1], case[2], list(case[3])]})
    st.states = len(st.outcomes)
    return st


# ---- adoption: events fired on a component that is registered with the dispatching root afterwards --------------------------

def adopt_cases():
    for own_use in (0, 3, 7):
        for root_use in (0, 2, 5):
            for pre in (0, 2):                     # events queued on the root before the registration
                for prios in itertools.product((0, 1), repeat=4):
                    yield own_use, root_use, pre, prios


def run_adopt(case):
    """-> (dispatch order, expected order) of the tagged events; events 0,1 are fired on the detached component, then it is
    registered, then 2,3 are fired on the root; `pre` events (tags 10, 11) are queued on the root before all that"""
    from circuits.core.components import BaseComponent
    own_use, root_use, pre, prios = case
    log = []
    root = BaseComponent()

    def on_p(self, event, tag):
        log.append(tag)
    root.addHandler(handler('p', channel='*')(on_p))
    comp = BaseComponent(channel='c')
    for _ in range(own_use):                 # the component lives on its own for a while (its queue hands out numbers)
        comp.fire(Event.create('q'))
        comp.flush()
    for _ in range(root_use):
        root.fire(Event.create('q'))
        root.flush()
    fired = []
    for k in range(pre):
        root.fire(Event.create('p', 10 + k), '*')
        fired.append((0, len(fired), 10 + k))
    for k in (0, 1):
        comp.fire(Event.create('p', k), '*', priority=prios[k])
        fired.append((prios[k], len(fired), k))
    comp.register(root)
    for k in (2, 3):
        root.fire(Event.create('p', k), '*', priority=prios[k])
        fired.append((prios[k], len(fired), k))
    for _ in range(4):
        root.flush()
    return log, [t for _p, _i, t in sorted(fired)]


BIG_SIZES = {'quick': (129, 300, 1100), 'thorough': (64, 128, 129, 130, 255, 256, 257, 300, 1100, 5000)}
BIG_PATTERNS = ('last-urgent', 'first-slow', 'cycle3', 'descending', 'urgent-every-100')


def big_externals(n, pattern):
    if pattern == 'last-urgent':
        pr = [1] * (n - 1) + [-1]
    elif pattern == 'first-slow':
        pr = [2] + [0] * (n - 1)
    elif pattern == 'cycle3':
        pr = [(0, 2, -1)[i % 3] for i in range(n)]
    elif pattern == 'descending':
        pr = [n - i for i in range(n)]
    else:
        pr = [(-1 if i % 100 == 99 else 0.5) for i in range(n)]
    return tuple(('A' if i % 2 == 0 else 'B', p) for i, p in enumerate(pr))


def big_batch_space(tier):
    for n in BIG_SIZES[tier]:
        for pattern in BIG_PATTERNS:
            for h_a in (((0, 'nop'),), ((0, ('fire', 0)), (1, 'nop'))):
                yield (h_a, ((0, 'nop'),), ((0, 'nop'),), big_externals(n, pattern), None, pattern)


def refire_space(tier, h_b, exts, mids):
    bodies_r = ['nop', 'stop', ('fire', 0)] + [('refire', how, p) for how in ('stopfirst', 'firefirst', 'nostop') for p in (-1, 0, 2)]
    pairs = [(0, 1)] if tier == 'quick' else [(0, 1), (-1, 2.5)]
    h_r = [h for h in handler_sets(bodies_r, pairs) if any(isinstance(b, tuple) and b[0] == 'refire' for _p, b in h)]
    h_b2 = [h_b[0], h_b[-1]]
    return itertools.product(h_r, h_b2, [((0, 'nop'),)], [x for x in exts if len(x) <= 2], mids[:2])


def run(tier, seed, workers):
    h_a, h_b, h_c, exts, mids = grammar(tier)
    total_programs = len(h_a) * len(h_b) * len(h_c) * len(exts) * len(mids)
    # determinism protocol: one program executed twice must give identical logs
    probe = (h_a[-1], h_b[-1], h_c[-1], exts[-1], mids[-1])
    l1, l2 = run_one(probe)[0], run_one(probe)[0]
    st = core.parallel(_work, (tier, seed), workers, nparts=workers * 4)
    if l1 != l2:
        st.selfcheck_errors.append('determinism: same program gave two different logs')
    if st.executions - st.counters['multi_channel_programs'] - st.counters['refire_programs'] - st.counters['big_batch_programs'] - st.counters['adoption_programs'] != total_programs:
        st.selfcheck_errors.append('enumeration: executed %d of %d programs' % (st.executions, total_programs))
    st.states = len(st.outcomes)
    st.bounds = {'handler_sets_A': len(h_a), 'handler_sets_B': len(h_b), 'handler_sets_C': len(h_c),
                 'external_fire_sequences': len(exts), 'mid_fires': len(mids), 'programs': total_programs,
                 'nesting': 2, 'max_external_fires': 3, 'passes_horizon': HORIZON}
    if not st.samples:
        st.sample({'program': program_json(probe), 'log': [list(e) for e in l1][:40]})
    if not st.counters['programs_firing_from_handlers']:
        st.selfcheck_errors.append('vacuity: no program fired from a handler')
    return st


def replay(witness):
    if witness.get('adopt'):
        a = witness['adopt']
        case = (a[0], a[1], a[2], tuple(a[3]))
        got, want = run_adopt(case)
        return got == want, 'adoption case %r\ndispatched %r\nexpected   %r\n%s\n' % (case, got, want, 'order holds' if got == want else 'VIOLATED: order')
    if witness.get('big'):
        program = [p for p in big_batch_space('thorough') if len(p[3]) == witness['n'] and p[5] == witness['pattern']][0]
        log, maxdepth, quiescent = run_one(program)
        bad, _ = judge(program, log, maxdepth, quiescent)
        text = 'big batch: %d events, pattern %s\n' % (witness['n'], witness['pattern'])
        text += ''.join('VIOLATED: %s: %s\n' % b for b in bad[:5]) or 'all order constraints hold\n'
        return (not bad), text
    program = program_from_json(witness)
    log, maxdepth, quiescent = run_one(program, witness.get('mode', 0))
    bad, _ = judge(program, log, maxdepth, quiescent)
    text = 'program: %r\nlog:\n  %s\n' % (program, '\n  '.join(map(repr, log)))
    text += ''.join('VIOLATED: %s: %s\n' % b for b in bad) or 'all order constraints hold\n'
    return (not bad), text
