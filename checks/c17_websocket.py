"""C17 - WebSocket frames round-trip exactly, whatever the segmentation or fragmentation.

Engine E4: every case = (role, masking key of the peer, sequence of items, cut set) is executed on fresh real circuits
objects: a parent component (the "transport"), a real WebSocketCodec registered under it (server role: with a socket,
client role: without) and a listener on the codec's channel.  The incoming byte stream is produced by an independent
RFC 6455 encoder in this file, cut into segments and fired as `read` events on the parent's channel (the queue is
flushed to quiescence after every segment); decoded `read` events on the codec's channel and `write`/`close` events on
the parent's channel are captured.  Everything the codec sends is decoded by an independent strict RFC 6455 decoder.
`os.urandom` as seen by circuits.protocols.websocket is scripted (masking keys of the client role).
"""
import functools
import hashlib
import itertools
import os as _os

import circuits.protocols.websocket as ws_mod
from circuits.core.components import BaseComponent
from circuits.core.handlers import handler
from circuits.net.events import close, read, write
from circuits.protocols.websocket import WebSocketCodec

from mc import core

PROPERTY = 'C17'
LEVEL = 'model_checking'
RULE = ('case = (role server|client, masking key of the peer or none, item sequence, cut set). Items: data message (text with '
        'multi-byte UTF-8 / binary, payload length from {0,1,125,126,127,65535,65536,70000} or small, split into 1-3 frames at '
        'every split point, ping/pong of 0/5/125 bytes before, between and after the fragments), ping, pong, close frame, local '
        'write (str/bytes/bytearray), local close. Cut sets: none, every single cut inside/around every frame header and around '
        'every payload end, every pair of cuts inside a header region, fixed-size chunks (1 = byte at a time, 2, 3, 7, 1460, 4096). '
        'All cases of the five families (lengths x header cuts, fragmentation x control frames, sequences of 1-3 items, outgoing '
        'writes, client role with the first k bytes handed to the constructor as initial data - the rest read after, or before, the codec has handled its `registered` event) are executed once each; '
        'non-trivial = a cut strictly inside a frame, a fragmented message, a control frame, a local action, initial data or an '
        'extended length; distinct = distinct case')
ASSUMPTIONS = [
    'the peer is conforming: server role receives masked frames, client role unmasked frames; text payloads are valid UTF-8; '
    'control frames are unfragmented and <= 125 bytes',
    'segments are delivered as `read` events on the parent channel, the queue is flushed to quiescence between two segments '
    '(one read per loop iteration, as the socket components do)',
    'text is delivered as str, binary as a bytes-like object; the socket argument of the server role is compared by identity',
    'os.urandom of circuits.protocols.websocket is replaced by a scripted double (keys 00000000, ff00ff00, 01020304, 80808080)',
    'after a local close, data still arriving from the peer may be delivered or dropped (both accepted), pongs are optional; '
    'the closing handshake itself (that a close frame is answered by a close frame, masking of that frame) is observed, not judged',
]

LENS = (0, 1, 125, 126, 127, 65535, 65536, 70000)
KEYS = ('00000000', 'ff00ff00', '01020304', '80808080')
OP_CONT, OP_TEXT, OP_BIN, OP_CLOSE, OP_PING, OP_PONG = 0, 1, 2, 8, 9, 10


# ---------------------------------------------------------------------------------------------------------------
# independent RFC 6455 reference codec (section 5.2 base framing, 5.3 masking, 5.4 fragmentation, 5.5 control frames)


def xor_mask(data, key):
    n = len(data)
    if not n:
        return b''
    pad = (key * (n // 4 + 1))[:n]
    return (int.from_bytes(data, 'big') ^ int.from_bytes(pad, 'big')).to_bytes(n, 'big')


def ref_header_len(n, masked):
    return 2 + (0 if n <= 125 else 2 if n <= 0xFFFF else 8) + (4 if masked else 0)


def ref_encode(fin, opcode, payload, key=None):
    """One frame.  key = 4 bytes (masked) or None."""
    n = len(payload)
    out = bytearray([(0x80 if fin else 0) | opcode])
    mbit = 0x80 if key is not None else 0
    if n <= 125:
        out.append(mbit | n)
    elif n <= 0xFFFF:
        out.append(mbit | 126)
        out += n.to_bytes(2, 'big')
    else:
        out.append(mbit | 127)
        out += n.to_bytes(8, 'big')
    if key is not None:
        out += key
        out += xor_mask(payload, key)
    else:
        out += payload
    return bytes(out)


class Malformed(Exception):
    pass


def ref_decode(buf):
    """Strict decoder of a complete byte stream -> list of frames (dicts).  Raises Malformed."""
    buf = bytes(buf)
    frames = []
    i = 0
    while i < len(buf):
        if len(buf) - i < 2:
            raise Malformed('stream ends inside a 2-byte header at %d' % i)
        b0, b1 = buf[i], buf[i + 1]
        if b0 & 0x70:
            raise Malformed('RSV bits set at %d' % i)
        op = b0 & 0x0F
        if op not in (0, 1, 2, 8, 9, 10):
            raise Malformed('reserved opcode %d at %d' % (op, i))
        fin = bool(b0 & 0x80)
        masked = bool(b1 & 0x80)
        n = b1 & 0x7F
        j = i + 2
        form = 7
        if n == 126:
            if len(buf) - j < 2:
                raise Malformed('stream ends inside a 16-bit length at %d' % i)
            n = int.from_bytes(buf[j:j + 2], 'big')
            j += 2
            form = 16
            if n <= 125:
                raise Malformed('length %d in 16-bit form (not minimal) at %d' % (n, i))
        elif n == 127:
            if len(buf) - j < 8:
                raise Malformed('stream ends inside a 64-bit length at %d' % i)
            n = int.from_bytes(buf[j:j + 8], 'big')
            j += 8
            form = 64
            if n <= 0xFFFF:
                raise Malformed('length %d in 64-bit form (not minimal) at %d' % (n, i))
            if n >> 63:
                raise Malformed('64-bit length with the top bit set at %d' % i)
        if op >= 8 and (not fin or form != 7):
            raise Malformed('control frame fragmented or longer than 125 at %d' % i)
        key = None
        if masked:
            if len(buf) - j < 4:
                raise Malformed('stream ends inside a masking key at %d' % i)
            key = buf[j:j + 4]
            j += 4
        if len(buf) - j < n:
            raise Malformed('stream ends inside a payload (%d of %d bytes) at %d' % (len(buf) - j, n, i))
        payload = buf[j:j + n]
        if masked:
            payload = xor_mask(payload, key)
        frames.append({'fin': fin, 'op': op, 'masked': masked, 'key': key, 'payload': payload, 'form': form, 'at': i})
        i = j + n
    return frames


def ref_messages(frames):
    """Reassemble data messages (section 5.4) -> [(kind 'T'|'B', payload bytes, index of the last frame)]."""
    msgs = []
    cur = None
    for idx, f in enumerate(frames):
        if f['op'] >= 8:
            continue
        if f['op'] in (OP_TEXT, OP_BIN):
            if cur is not None:
                raise Malformed('new data frame while a fragmented message is open at %d' % f['at'])
            cur = ['T' if f['op'] == OP_TEXT else 'B', bytearray()]
        elif cur is None:
            raise Malformed('continuation frame without a message at %d' % f['at'])
        cur[1] += f['payload']
        if f['fin']:
            msgs.append((cur[0], bytes(cur[1]), idx))
            cur = None
    if cur is not None:
        raise Malformed('stream ends inside a fragmented message')
    return msgs


def ref_selftest():
    """The examples of RFC 6455 section 5.7 and an encoder/decoder round trip."""
    errs = []
    ex = [
        (ref_encode(True, OP_TEXT, b'Hello'), bytes.fromhex('810548656c6c6f')),
        (ref_encode(True, OP_TEXT, b'Hello', bytes.fromhex('37fa213d')), bytes.fromhex('818537fa213d7f9f4d5158')),
        (ref_encode(False, OP_TEXT, b'Hel') + ref_encode(True, OP_CONT, b'lo'), bytes.fromhex('010348656c80026c6f')),
        (ref_encode(True, OP_PING, b'Hello'), bytes.fromhex('890548656c6c6f')),
        (ref_encode(True, OP_PONG, b'Hello', bytes.fromhex('37fa213d')), bytes.fromhex('8a8537fa213d7f9f4d5158')),
        (ref_encode(True, OP_BIN, bytes(256))[:4], bytes.fromhex('827e0100')),
        (ref_encode(True, OP_BIN, bytes(65536))[:10], bytes.fromhex('827f0000000000010000')),
    ]
    for n, (got, want) in enumerate(ex):
        if got != want:
            errs.append('reference encoder: RFC 6455 5.7 example %d gives %s' % (n, got.hex()))
    for n in LENS:
        for key in (None, bytes.fromhex('ff00ff00')):
            p = bin_payload(n, 3)
            fr = ref_decode(ref_encode(True, OP_BIN, p, key) + ref_encode(True, OP_PING, b'x', key))
            if len(fr) != 2 or fr[0]['payload'] != p or fr[0]['masked'] != (key is not None) or fr[1]['op'] != OP_PING:
                errs.append('reference codec round trip failed for length %d' % n)
    for bad in (b'\x81', b'\x81\x7e\x00', b'\x81\x7e\x00\x05hello', b'\x91\x00', b'\x83\x00', b'\x09\x00', b'\x81\x82\x01\x02'):
        try:
            ref_decode(bad)
            errs.append('reference decoder accepted %s' % bad.hex())
        except Malformed:
            pass
    return errs


# ---------------------------------------------------------------------------------------------------------------
# payloads

_CHARS = ('a', 'é', '€', '\U0001F600', 'q', 'ß', '語', 'z')


@functools.lru_cache(maxsize=256)
def text_payload(n, salt):
    """A str whose UTF-8 encoding has exactly n bytes, mixing 1/2/3/4-byte characters, position dependent."""
    out = []
    have = 0
    i = salt
    while have < n:
        c = _CHARS[i % len(_CHARS)]
        b = len(c.encode('utf-8'))
        if have + b > n:
            c = chr(0x62 + i % 20)
            b = 1
        out.append(c)
        have += b
        i += 1
    return ''.join(out)


@functools.lru_cache(maxsize=256)
def bin_payload(n, salt):
    """n bytes covering every byte value (0x81, 0x88, 0x89, 0x7e, 0x7f ... look like frame headers)."""
    return bytes((0x7E + 37 * i + 11 * salt + (i >> 8)) & 0xFF for i in range(n))


def ctl_payload(n, salt):
    return bytes((0x41 + (i + 7 * salt) % 26) for i in range(n))


# ---------------------------------------------------------------------------------------------------------------
# cases
#
# case = {'role': 'server'|'client', 'key': hex|None, 'items': [...], 'cuts': [offsets] | ['chunk', k], 'okeys': [hex..]}
# item = ['msg', kind, length, [split offsets], [[gap, ctl, n], ...]]       data message from the peer (gap -1 = before, k = after frame k)
#        ['ping', n] | ['pong', n] | ['close', n]                           control frame from the peer (close: n=0 empty, else status+reason)
#        ['w', kind 'T'|'B'|'A', length, shift] | ['c', shift]              local write / local close, `shift` bytes into what follows


def close_payload(n):
    return b'' if not n else (1000).to_bytes(2, 'big') + ctl_payload(n - 2, 5)


def frames_of(items, masked):
    """Arithmetic layout, no payload bytes: [(item index, op, fin, length, payload slice, salt)] and actions."""
    frames = []
    actions = []
    for ii, it in enumerate(items):
        t = it[0]
        if t == 'msg':
            _, kind, n, splits, inter = it
            bounds = [0] + list(splits) + [n]
            nfr = len(bounds) - 1
            for g, ctl, cn in inter:
                if g == -1:
                    frames.append((ii, OP_PING if ctl == 'ping' else OP_PONG, True, cn, None, (ii, g)))
            for k in range(nfr):
                op = (OP_TEXT if kind == 'T' else OP_BIN) if k == 0 else OP_CONT
                frames.append((ii, op, k == nfr - 1, bounds[k + 1] - bounds[k], (bounds[k], bounds[k + 1]), None))
                for g, ctl, cn in inter:
                    if g == k:
                        frames.append((ii, OP_PING if ctl == 'ping' else OP_PONG, True, cn, None, (ii, g)))
        elif t in ('ping', 'pong'):
            frames.append((ii, OP_PING if t == 'ping' else OP_PONG, True, it[1], None, (ii, 0)))
        elif t == 'close':
            frames.append((ii, OP_CLOSE, True, len(close_payload(it[1])), None, None))
        elif t in ('w', 'c'):
            actions.append((ii, len(frames), it))
        else:
            raise ValueError(it)
    return frames, actions


class Built:
    pass


def build(case):
    """Incoming stream, frame layout, action offsets and the expectation derived from the item list alone."""
    b = Built()
    role = case['role']
    key = bytes.fromhex(case['key']) if case.get('key') else None
    items = case['items']
    frames, actions = frames_of(items, key is not None)
    stream = bytearray()
    layout = []      # (start, header length, end, op, fin, item index, payload)
    msg_payload = {}
    for ii, it in enumerate(items):
        if it[0] == 'msg':
            msg_payload[ii] = text_payload(it[2], ii).encode('utf-8') if it[1] == 'T' else bin_payload(it[2], ii)
    for (ii, op, fin, n, sl, salt) in frames:
        if sl is not None:
            payload = msg_payload[ii][sl[0]:sl[1]]
        elif op == OP_CLOSE:
            payload = close_payload(items[ii][1])
        else:
            payload = ctl_payload(n, salt[0] * 5 + salt[1] + 2)
        start = len(stream)
        stream += ref_encode(fin, op, payload, key)
        layout.append((start, ref_header_len(len(payload), key is not None), len(stream), op, fin, ii, payload))
    b.stream = bytes(stream)
    b.layout = layout
    total = len(stream)
    # actions: offset = start of the frame that follows + shift (clipped)
    acts = []
    for (ii, fidx, it) in actions:
        base = layout[fidx][0] if fidx < len(layout) else total
        shift = it[-1]
        acts.append((min(total, base + shift), ii, it))
    b.actions = acts
    # ---- expectation: walk frame completions and local actions in stream order
    events = [(lay[2], 0, n, ('frame', lay)) for n, lay in enumerate(layout)]
    events += [(off, 1, ii, ('act', it, ii)) for (off, ii, it) in acts]
    events.sort(key=lambda e: e[:3])
    closed_in = closed_out = False
    exp_reads, exp_pongs, exp_out = [], [], []
    cur = None
    b.ping_between_fragments = b.utf8_split = b.data_after_close_in = b.ping_after_local_close = False
    b.data_after_local_close = b.write_after_close = False
    for _off, _cls, _n, ev in events:
        if ev[0] == 'frame':
            (_s, _h, _e, op, fin, ii, payload) = ev[1]
            if op in (OP_TEXT, OP_BIN, OP_CONT):
                if op != OP_CONT:
                    cur = ['T' if op == OP_TEXT else 'B', bytearray()]
                elif cur[0] == 'T' and payload and (payload[0] & 0xC0) == 0x80:
                    b.utf8_split = True
                cur[1] += payload
                if fin:
                    if closed_in:
                        b.data_after_close_in = True
                    else:
                        if closed_out:
                            b.data_after_local_close = True
                        exp_reads.append((cur[0], bytes(cur[1]), closed_out))
                    cur = None
            elif op == OP_PING:
                if cur is not None:
                    b.ping_between_fragments = True
                if closed_out and not closed_in:
                    b.ping_after_local_close = True
                exp_pongs.append((payload, closed_in or closed_out))
            elif op == OP_CLOSE:
                closed_in = True
        else:
            it, ii = ev[1], ev[2]
            if it[0] == 'w':
                kind, n = it[1], it[2]
                if closed_in or closed_out:
                    b.write_after_close = True
                else:
                    data = text_payload(n, ii).encode('utf-8') if kind == 'T' else bin_payload(n, ii)
                    exp_out.append(('T' if kind == 'T' else 'B', data))
            else:
                closed_out = True
    b.exp_reads, b.exp_pongs, b.exp_out = exp_reads, exp_pongs, exp_out
    b.closed_in, b.closed_out = closed_in, closed_out
    b.role = role
    return b


def cut_offsets(case, b):
    """Effective sorted cut offsets (strictly inside the stream), including those forced by local actions."""
    n = len(b.stream)
    cuts = case.get('cuts') or []
    if cuts and cuts[0] == 'chunk':
        offs = set(range(cuts[1], n, cuts[1]))
    else:
        offs = set(cuts)
    offs |= {off for (off, _ii, _it) in b.actions}
    return sorted(o for o in offs if 0 < o < n)


def cut_class(off, layout):
    """Which field of which frame is incomplete when the stream is cut at `off`."""
    for (start, hdr, end, op, _fin, _ii, payload) in layout:
        if start <= off < end:
            r = off - start
            masked = hdr - ref_header_len(len(payload), False)
            if r == 0:
                return 'boundary'
            if r < 2:
                return 'hdr2'
            if r < hdr - masked:
                return 'extlen'
            if r < hdr:
                return 'maskkey'
            return 'payload'
    return 'boundary'


# ---------------------------------------------------------------------------------------------------------------
# the world: real circuits components


class _OsDouble:
    """Stands in for the `os` module inside circuits.protocols.websocket: scripted urandom."""

    keys = [b'\x01\x02\x03\x04']
    pos = 0

    def __getattr__(self, name):
        return getattr(_os, name)

    def urandom(self, n):
        k = self.keys[self.pos % len(self.keys)]
        self.pos += 1
        return (k * (n // len(k) + 1))[:n]


_OSD = _OsDouble()
ws_mod.os = _OSD


class _Sock:
    def __repr__(self):
        return '<sock>'


class Transport(BaseComponent):
    """The codec's parent: what a TCPServer/TCPClient (or the dispatcher above it) is to the codec."""

    channel = 'transport'
    w = None

    @handler('write')
    def _cap_write(self, *args):
        self.w.log.append(('out', self.w.step, args))

    @handler('close')
    def _cap_close(self, *args):
        self.w.log.append(('pclose', self.w.step))

    @handler('exception', channel='*')
    def _cap_exception(self, etype, evalue, *args, **kwargs):
        self.w.log.append(('exc', self.w.step, getattr(etype, '__name__', repr(etype)), str(evalue)[:80]))


class Listener(BaseComponent):
    channel = 'ws'
    w = None

    @handler('read')
    def _cap_read(self, *args):
        self.w.log.append(('read', self.w.step, args))


class World:
    def __init__(self, role, okeys, init_data=None, settle_first=True):
        self.log = []
        self.step = -1
        self.role = role
        _OSD.keys = [bytes.fromhex(k) for k in (okeys or ['01020304'])]
        _OSD.pos = 0
        self.sock = _Sock() if role == 'server' else None
        self.top = Transport()
        self.top.w = self
        lst = Listener()
        lst.w = self
        lst.register(self.top)
        self.codec = None
        try:
            if role == 'server':
                self.codec = WebSocketCodec(self.sock, channel='ws')
            elif init_data is None:
                self.codec = WebSocketCodec(channel='ws')
            else:   # as WebSocketClient does with what followed the 101 response in the same segment
                self.codec = WebSocketCodec(data=init_data, channel='ws')
        except Exception as exc:  # noqa: BLE001 - the constructor decodes its data argument: a raise is an observation
            self.log.append(('exc', self.step, type(exc).__name__, ('in constructor: ' + str(exc))[:80]))
        if self.codec is not None:
            self.codec.register(self.top)
        # settle_first False: the transport has read the next segment before the codec's `registered` event was handled (what a
        # busy client sees: the reads polled while the 101 response was being dealt with are queued behind it)
        self.quiescent = self.settle() if settle_first else True

    def settle(self, horizon=60):
        top = self.top
        for _ in range(horizon):
            if not len(top):
                return True
            top.flush()
        return not len(top)

    def _ev(self, cls, *args):
        return cls(self.sock, *args) if self.role == 'server' else cls(*args)

    def feed(self, seg):
        self.step += 1
        self.top.fire(self._ev(read, seg), 'transport')
        self.quiescent = self.settle() and self.quiescent

    def act(self, it, ii):
        self.step += 1
        if it[0] == 'w':
            kind, n = it[1], it[2]
            data = text_payload(n, ii) if kind == 'T' else bin_payload(n, ii)
            if kind == 'A':
                data = bytearray(data)
            self.top.fire(self._ev(write, data), 'ws')
        else:
            self.top.fire(self._ev(close), 'ws')
        self.quiescent = self.settle() and self.quiescent


def execute(case):
    b = build(case)
    init = case.get('init')
    offs = cut_offsets(case, b)
    if init:
        offs = sorted(set(offs) | ({init} if init < len(b.stream) else set()))
    w = World(case['role'], case.get('okeys'), b.stream[:init] if init else None, settle_first=not case.get('eager'))
    points = [0] + offs + [len(b.stream)]
    acts = sorted(b.actions, key=lambda a: (a[0], a[1]))
    ai = 0
    while ai < len(acts) and acts[ai][0] == 0:
        w.act(acts[ai][2], acts[ai][1])
        ai += 1
    for k in range(len(points) - 1):
        lo, hi = points[k], points[k + 1]
        if hi > lo and not (init and hi <= init):
            w.feed(b.stream[lo:hi])
        while ai < len(acts) and acts[ai][0] <= hi:
            w.act(acts[ai][2], acts[ai][1])
            ai += 1
    while ai < len(acts):
        w.act(acts[ai][2], acts[ai][1])
        ai += 1
    return b, w, offs


# ---------------------------------------------------------------------------------------------------------------
# oracle


def _short(x):
    if isinstance(x, str):
        x = x.encode('utf-8', 'replace')
    x = bytes(x)
    if len(x) <= 24:
        return x.hex()
    return '%s..(%d bytes, blake2 %s)' % (x[:12].hex(), len(x), hashlib.blake2b(x, digest_size=6).hexdigest())


def match_optional(expected, observed, same):
    """expected = [(item, optional)], observed = [item]: every non-optional item must appear, in order, nothing else.
    Returns (None, None) or (effect, text)."""
    j = 0
    for n, (item, optional) in enumerate(expected):
        if j < len(observed) and same(item, observed[j]) is None:
            j += 1
        elif optional:
            continue
        elif j >= len(observed):
            return 'lost', 'item %d of %d expected (%s) never arrived; %d arrived' % (n, len(expected), _short(item[-1]), len(observed))
        else:
            return same(item, observed[j]), 'item %d: expected %s, got %s' % (n, _short(item[-1]), _short(observed[j][-1]))
    if j < len(observed):
        return 'extra', '%d unexpected item(s), first %s' % (len(observed) - j, _short(observed[j][-1]))
    return None, None


def _same_read(exp, got):
    if exp[0] != got[0]:
        return 'type'
    if exp[1] != got[1]:
        return 'payload'
    return None


def observe(b, w):
    """Comparable summary of one execution (used for outcome counting, determinism and evidence)."""
    obs = []
    for e in w.log:
        if e[0] == 'read':
            m = e[2][-1] if e[2] else None
            obs.append(('read', e[1], type(m).__name__, _short(m) if isinstance(m, (str, bytes, bytearray, memoryview)) else repr(m)))
        elif e[0] == 'out':
            d = e[2][-1] if e[2] else None
            obs.append(('out', e[1], _short(d) if isinstance(d, (bytes, bytearray, memoryview)) else repr(d)))
        else:
            obs.append(tuple(e))
    return tuple(obs)


def judge(case, b, w):
    """-> list of (effect, text); empty = the property holds on this execution."""
    bad = []
    role = case['role']
    if not w.quiescent:
        bad.append(('no-quiescence', 'event queue not empty after 60 flushes'))
    for e in w.log:
        if e[0] == 'exc':
            bad.append(('exception-' + e[2], 'handler raised %s: %s (step %d)' % (e[2], e[3], e[1])))
            break
    # ---- incoming direction: decoded read events
    reads = []
    for e in w.log:
        if e[0] != 'read':
            continue
        args = e[2]
        if role == 'server' and (len(args) != 2 or args[0] is not w.sock):
            bad.append(('read-event-shape', 'server role read event args %r' % (args[:1],)))
            continue
        if role == 'client' and len(args) != 1:
            bad.append(('read-event-shape', 'client role read event with %d args' % len(args)))
            continue
        m = args[-1]
        if isinstance(m, str):
            reads.append(('T', m.encode('utf-8', 'surrogatepass')))
        elif isinstance(m, (bytes, bytearray, memoryview)):
            reads.append(('B', bytes(m)))
        else:
            reads.append(('?', repr(m).encode()))
    eff, text = match_optional([((k, p), o) for (k, p, o) in b.exp_reads], reads, _same_read)
    if eff:
        if eff == 'extra' and b.data_after_close_in:
            eff = 'delivered-after-close'
        bad.append(({'lost': 'reads-lost', 'extra': 'reads-extra', 'type': 'read-type', 'payload': 'read-payload'}.get(eff, eff),
                    'decoded messages: ' + text))
    # ---- everything the codec sent, as a conforming peer sees it
    out = bytearray()
    shape_ok = True
    for e in w.log:
        if e[0] != 'out':
            continue
        args = e[2]
        if (role == 'server' and (len(args) != 2 or args[0] is not w.sock)) or (role == 'client' and len(args) != 1) \
                or not isinstance(args[-1], (bytes, bytearray, memoryview)):
            shape_ok = False
            bad.append(('out-event-shape', 'write event on the parent channel with args %r' % (tuple(type(a).__name__ for a in args),)))
            continue
        out += bytes(args[-1])
    frames = None
    try:
        frames = ref_decode(out)
        msgs = ref_messages(frames)
    except Malformed as exc:
        bad.append(('out-malformed', 'bytes sent are not a sequence of RFC 6455 frames: %s' % exc))
        frames = None
    if frames is not None and shape_ok:
        want_mask = role == 'client'
        for f in frames:
            if f['op'] != OP_CLOSE and f['masked'] != want_mask:
                bad.append(('out-mask', '%s role sent a frame (opcode %d) %s' % (role, f['op'], 'masked' if f['masked'] else 'unmasked')))
                break
        got = [(k, p) for (k, p, _i) in msgs]
        eff, text = match_optional([(x, False) for x in b.exp_out], got, _same_read)
        if eff:
            if eff == 'extra' and b.write_after_close:
                eff = 'sent-after-close'
            bad.append(('out-' + eff if eff != 'sent-after-close' else eff, 'messages sent: ' + text))
        first_close = next((i for i, f in enumerate(frames) if f['op'] == OP_CLOSE), None)
        if first_close is not None and any(i > first_close for (_k, _p, i) in msgs) and not any(x[0] == 'sent-after-close' for x in bad):
            bad.append(('sent-after-close', 'a data frame follows the close frame in what the codec sent'))
        pongs = [('P', f['payload']) for f in frames if f['op'] == OP_PONG]
        eff, text = match_optional([(('P', p), opt) for (p, opt) in b.exp_pongs], pongs, _same_read)
        if eff:
            bad.append(('pong-' + eff, 'pongs: ' + text))
    return bad


def features(case, b, offs):
    classes = [cut_class(o, b.layout) for o in offs]
    part = next((c for c in ('hdr2', 'extlen', 'maskkey') if c in classes), None)
    frag = any(it[0] == 'msg' and it[3] for it in case['items'])
    ctl_in = any(it[0] == 'msg' and any(0 <= g < len(it[3]) for g, _c, _n in it[4]) for it in case['items'])
    maxlen = max([len(lay[6]) for lay in b.layout] or [0])
    return classes, part, frag, ctl_in, maxlen


_UNCUT = {}


def uncut_effects(case):
    """Effects observed when the same items arrive without any cut (beyond those forced by local actions): a failure
    that is also present there is attributed to the frame pattern, not to the position of a cut."""
    k = repr((case['role'], case.get('key'), case['items'], case.get('okeys')))
    if k not in _UNCUT:
        _UNCUT.clear()     # cases of one group are executed consecutively: one entry suffices
        c2 = dict({k2: v for k2, v in case.items() if k2 != 'init'}, cuts=[], items=[(it[:-1] + [0]) if it[0] in ('w', 'c') else it for it in case['items']])
        b2, w2, _o = execute(c2)
        _UNCUT[k] = frozenset(e for e, _t in judge(c2, b2, w2))
    return _UNCUT[k]


def noinit_effects(case):
    """Effects observed when the bytes given to the constructor arrive as an ordinary first read instead."""
    c2 = {k: v for k, v in case.items() if k != 'init'}
    cuts = case.get('cuts') or []
    if not (cuts and cuts[0] == 'chunk'):
        c2['cuts'] = sorted(set(cuts) | {case['init']})
    b2, w2, _o = execute(c2)
    return frozenset(e for e, _t in judge(c2, b2, w2))


def signature(case, b, offs, effect):
    """(direction, header field containing the cut or frame pattern, effect)."""
    classes, part, frag, ctl_in, maxlen = features(case, b, offs)
    if case.get('init') and effect not in noinit_effects(case):
        return 'in:initial-data:%s' % effect
    if part and effect in uncut_effects(case):
        part = None
    has_w = any(it[0] == 'w' for it in case['items'])
    has_close = any(it[0] in ('c', 'close') for it in case['items'])
    if part:
        return 'in:cut-in-%s:%s' % (part, effect)
    if effect.startswith('pong-') or (effect == 'out-malformed' and not has_w):
        where = 'ping-between-fragments' if b.ping_between_fragments else 'ping'
        return 'in:%s:%s' % (where, effect)
    if has_w and effect.startswith(('out-', 'sent-')):
        m = max(it[2] for it in case['items'] if it[0] == 'w')
        where = 'write-' + ('len7' if m <= 125 else 'len16' if m <= 0xFFFF else 'len64')
        return 'out:%s%s:%s' % (where, '+close' if has_close else '', effect)
    if b.ping_after_local_close:
        where = 'ping-after-local-close'
    elif ctl_in:
        where = 'control-in-fragmented'
    elif frag:
        where = 'fragmented'
    else:
        where = ('len7' if maxlen <= 125 else 'len16' if maxlen <= 0xFFFF else 'len64') + ('+close' if has_close else '')
    return 'in:%s:%s' % (where, effect)


# ---------------------------------------------------------------------------------------------------------------
# enumeration


def layout_of(items, masked):
    """(start, header length, end) per frame, computed without building payloads."""
    frames, _ = frames_of(items, masked)
    out = []
    pos = 0
    for (_ii, _op, _fin, n, _sl, _salt) in frames:
        h = ref_header_len(n, masked)
        out.append((pos, h, pos + h + n))
        pos += h + n
    return out, pos


def single_cuts(lay, total, span=16):
    s = set()
    for (start, h, end) in lay:
        for r in range(0, min(h + 3, span + 1)):
            s.add(start + r)
        for d in (-2, -1, 0, 1):
            s.add(end + d)
    return sorted(o for o in s if 0 < o < total)


def header_pairs(lay, total, which):
    out = []
    for fi in which:
        if fi >= len(lay):
            continue
        start, h, end = lay[fi]
        offs = [start + r for r in range(1, h + 2) if 0 < start + r < total]
        out.extend([a, c] for a, c in itertools.combinations(offs, 2))
    return out


def cut_sets(items, masked, pairs_for=(0,), chunks_small=(1, 2, 3, 7), chunks_big=(1460, 4096), all_singles_below=0, bytewise_below=1200):
    lay, total = layout_of(items, masked)
    yield []
    if total <= 1:
        return
    if total <= all_singles_below:
        singles = list(range(1, total))
    else:
        singles = single_cuts(lay, total)
    for o in singles:
        yield [o]
    for p in header_pairs(lay, total, pairs_for):
        yield p
    if total <= bytewise_below:
        for k in chunks_small:
            if k < total:
                yield ['chunk', k]
    else:
        for k in chunks_big:
            if k < total:
                yield ['chunk', k]


def mask_variants(tier, full):
    """(role, key of the peer's frames).  A conforming client masks, a conforming server does not."""
    if full:
        return [('server', k) for k in KEYS] + [('client', None)]
    return [('server', '01020304'), ('client', None)]


def fam_lengths(tier):
    """F1: one message of every length encoding, text/binary, every key, followed by a 1-byte sentinel message."""
    for n in LENS:
        for kind in ('T', 'B'):
            long_ = n > 127
            for role, key in mask_variants(tier, full=(not long_) or tier == 'thorough' or n == 65536):
                items = [['msg', kind, n, [], []], ['msg', 'T', 1, [], []]]
                yield {'fam': 'lengths', 'role': role, 'key': key, 'items': items,
                       'cutlists': list(cut_sets(items, key is not None, pairs_for=(0,)))}
    if tier == 'thorough':
        # byte at a time through a long message (every prefix of the stream is a segment boundary)
        for role, key in mask_variants(tier, full=False):
            for kind in ('T', 'B'):
                yield {'fam': 'lengths', 'role': role, 'key': key, 'items': [['msg', kind, 65536, [], []], ['msg', 'T', 1, [], []]],
                       'cutlists': [['chunk', 1]]}


def split_sets(n, small):
    """Every way to split a payload of n bytes into 1-3 frames (split offsets, empty fragments included)."""
    pts = list(range(0, n + 1)) if small else sorted({0, 1, 125, 126, n - 1, n} & set(range(0, n + 1)))
    yield []
    for a in pts:
        yield [a]
    for a, c in itertools.combinations_with_replacement(pts, 2):
        yield [a, c]


CTLS = (('ping', 0), ('ping', 5), ('ping', 125), ('pong', 5))


def control_configs(nsplits, tier):
    """Control frames before (gap -1), between (gaps 0..nsplits-1) and after (gap nsplits) the fragments."""
    yield []
    gaps = list(range(-1, nsplits + 1))
    for g in gaps:
        for c, n in CTLS:
            if tier == 'quick' and not 0 <= g < nsplits and (c, n) not in (('ping', 5), ('pong', 5)):
                continue      # before/after the message: the full set of control payloads only in the thorough tier
            yield [[g, c, n]]
    inner = list(range(0, nsplits))
    for g in inner:
        yield [[g, 'ping', 5], [g, 'pong', 0]]
        yield [[g, 'ping', 5], [g, 'ping', 0]]
    if len(inner) == 2:
        yield [[0, 'ping', 5], [1, 'ping', 125]]
        yield [[0, 'pong', 5], [1, 'ping', 0]]


def fam_fragments(tier):
    """F2: every split of a message into 1-3 frames x control frames around/between x cuts."""
    small = [('T', 0), ('T', 5), ('T', 6), ('B', 1), ('B', 3)] + ([('T', 1), ('B', 0)] if tier == 'thorough' else [])
    big = [('T', 127), ('B', 126)] + ([('B', 65536), ('T', 65535)] if tier == 'thorough' else [])
    for kind, n in small + big:
        is_small = n <= 6
        for splits in split_sets(n, is_small):
            for inter in control_configs(len(splits), tier):
                for role, key in mask_variants(tier, full=(tier == 'thorough' and is_small)):
                    items = [['msg', kind, n, splits, inter], ['msg', 'B', 2, [], []]]
                    has125 = any(x[2] == 125 for x in inter)
                    if is_small and not has125:
                        cs = cut_sets(items, key is not None, pairs_for=(), all_singles_below=80, chunks_small=(1, 2, 3))
                    elif n < 1000:
                        cs = cut_sets(items, key is not None, pairs_for=(), chunks_small=(1, 7))
                    else:
                        cs = cut_sets(items, key is not None, pairs_for=(), chunks_big=(4096,))
                    yield {'fam': 'fragments', 'role': role, 'key': key, 'items': items, 'cutlists': list(cs)}


def seq_alphabet(tier):
    a = [
        ['msg', 'T', 0, [], []], ['msg', 'T', 1, [], []], ['msg', 'T', 125, [], []], ['msg', 'B', 126, [], []], ['msg', 'B', 1, [], []],
        ['msg', 'T', 6, [3], []],
        ['ping', 5], ['pong', 0], ['close', 0], ['close', 5],
        ['w', 'T', 3, 0], ['w', 'B', 126, 1], ['c', 0], ['c', 1],
    ]
    if tier == 'thorough':
        a += [['msg', 'T', 6, [1, 4], [[0, 'ping', 5]]], ['ping', 125], ['w', 'A', 125, 3], ['msg', 'B', 65536, [], []]]
    return a


def fam_sequences(tier):
    """F3: every sequence of 1-3 items (messages, control frames, close, local write / close) x cuts."""
    alpha = seq_alphabet(tier)
    for n in (1, 2, 3):
        for seq in itertools.product(alpha, repeat=n):
            items = [list(x) for x in seq]
            if not any(it[0] in ('msg', 'ping', 'pong', 'close') for it in items):
                cutlists = [[]]
            else:
                cutlists = None
            nbig = sum(1 for it in items if it[0] == 'msg' and it[2] > 1000)
            if nbig > 1:
                continue
            for role, key in mask_variants(tier, full=False):
                if cutlists is not None:
                    cs = cutlists
                elif nbig:
                    cs = cut_sets(items, key is not None, pairs_for=(), chunks_big=(4096,))
                elif n == 3 and tier == 'quick':
                    cs = cut_sets(items, key is not None, pairs_for=(), chunks_small=(1, 3), bytewise_below=300)
                    cs = [c for c in cs if not c or c[0] == 'chunk' or len(c) > 1] + \
                         [[o] for o in header_singles(items, key is not None)]
                else:
                    cs = cut_sets(items, key is not None, pairs_for=(), chunks_small=(1, 2, 3), bytewise_below=300)
                yield {'fam': 'sequences', 'role': role, 'key': key, 'items': items, 'cutlists': list(cs)}


def header_singles(items, masked):
    lay, total = layout_of(items, masked)
    s = set()
    for (start, h, end) in lay:
        for r in range(0, h + 1):
            s.add(start + r)
    return sorted(o for o in s if 0 < o < total)


def fam_outgoing(tier):
    """F4: sequences of 1-3 local writes (str / bytes / bytearray) of every length; client role with every scripted key."""
    kinds = ('T', 'B', 'A')
    singles = [['w', k, n, 0] for k in kinds for n in LENS]
    roles = [('server', None, None)] + [('client', None, [KEYS[i], KEYS[(i + 1) % 4], KEYS[(i + 2) % 4]]) for i in range(4)]
    for w1 in singles:
        for role, key, okeys in roles:
            yield {'fam': 'outgoing', 'role': role, 'key': key, 'items': [w1], 'cutlists': [[]], 'okeys': okeys}
    pair_lens = LENS if tier == 'thorough' else (0, 1, 125, 126, 65535, 65536)
    pairs = [['w', k, n, 0] for k in kinds for n in pair_lens]
    for w1, w2 in itertools.product(pairs, repeat=2):
        if tier == 'quick' and w1[2] > 127 and w2[2] > 127 and w1[1] != w2[1]:
            continue
        for role, key, okeys in (roles if tier == 'thorough' else roles[:3]):
            yield {'fam': 'outgoing', 'role': role, 'key': key, 'items': [w1, w2], 'cutlists': [[]], 'okeys': okeys}
    tri = [['w', k, n, 0] for k in ('T', 'B') for n in (0, 125, 126, 65536)]
    for ws in itertools.product(tri, repeat=3):
        for role, key, okeys in roles[:2]:
            yield {'fam': 'outgoing', 'role': role, 'key': key, 'items': [list(x) for x in ws], 'cutlists': [[]], 'okeys': okeys}
    # writes interleaved with a partially received frame / a pending fragmented message
    for w1 in singles:
        for role, key in mask_variants(tier, full=False):
            for pre in (['msg', 'T', 6, [3], []], ['msg', 'B', 126, [], []]):
                for shift in (1, 3, 9):
                    yield {'fam': 'outgoing', 'role': role, 'key': key, 'items': [['w', w1[1], w1[2], shift], pre], 'cutlists': [[]],
                           'okeys': ['80808080', '01020304']}


def fam_initial(tier):
    """F5: client role, the first k bytes of the stream are handed to the constructor (`data=`), as WebSocketClient does
    with whatever followed the 101 response in the same segment; the rest arrives in one piece or byte by byte."""
    alpha = [['msg', 'T', 1, [], []], ['msg', 'B', 126, [], []], ['msg', 'T', 6, [3], [[0, 'ping', 5]]], ['msg', 'T', 125, [], []],
             ['ping', 5], ['pong', 0], ['close', 0]]
    if tier == 'thorough':
        alpha += [['ping', 125], ['msg', 'B', 65536, [], []], ['close', 5]]
    for n in (1, 2):
        for seq in itertools.product(alpha, repeat=n):
            items = [list(x) for x in seq] + [['msg', 'B', 2, [], []]]
            lay, total = layout_of(items, False)
            for k in sorted(set(header_singles(items, False)) | {total}):
                yield {'fam': 'initial', 'role': 'client', 'key': None, 'items': items, 'init': k,
                       'cutlists': [[]] + ([['chunk', 1]] if total - k <= 300 and k < total else [])}
                if k < total:
                    # ... and with the next segment read before the codec has seen its `registered` event
                    yield {'fam': 'initial', 'role': 'client', 'key': None, 'items': items, 'init': k, 'eager': True, 'cutlists': [[]]}


FAMILIES = (('lengths', fam_lengths), ('fragments', fam_fragments), ('sequences', fam_sequences), ('outgoing', fam_outgoing),
            ('initial', fam_initial))


def groups(tier):
    """A group = one (role, key, items) with the list of its cut sets; a group is executed by one worker."""
    for _name, fam in FAMILIES:
        yield from fam(tier)


def cases(tier):
    for g in groups(tier):
        for cuts in g['cutlists']:
            c = {k: v for k, v in g.items() if k != 'cutlists'}
            c['cuts'] = cuts
            yield c


def case_json(case):
    return {k: case[k] for k in ('role', 'key', 'items', 'cuts', 'okeys', 'init', 'eager', 'fam') if k in case}


def run_case(case):
    b, w, offs = execute(case)
    bad = judge(case, b, w)
    return b, w, offs, bad


def _work(part, nparts, payload):
    tier, seed = payload
    core.quiet_stderr()
    st = core.Stats()
    pick = {3 + seed % 5, 1500 + seed % 491}
    mine = (dict({k: v for k, v in g.items() if k != 'cutlists'}, cuts=cuts)
            for g in itertools.islice(groups(tier), part, None, nparts) for cuts in g['cutlists'])
    for idx, case in enumerate(mine):
        b, w, offs, bad = run_case(case)
        st.executions += 1
        st.transitions += w.step + 1
        st.counters['cases_' + case['fam']] += 1
        st.outcome(observe(b, w))
        classes, part_cut, frag, ctl_in, maxlen = features(case, b, offs)
        for c in set(classes):
            st.counters['cases_with_cut_in_' + c] += 1
        if len(offs) >= 2:
            st.counters['cases_with_two_or_more_cuts'] += 1
        if frag:
            st.counters['cases_with_fragmented_message'] += 1
        if b.ping_between_fragments:
            st.counters['cases_with_ping_between_fragments'] += 1
        if b.utf8_split:
            st.counters['cases_with_utf8_character_split_by_fragment_boundary'] += 1
        if b.data_after_close_in:
            st.counters['cases_with_data_after_close_frame'] += 1
        if b.write_after_close:
            st.counters['cases_with_write_after_close'] += 1
        if b.ping_after_local_close:
            st.counters['cases_with_ping_after_local_close'] += 1
        if case.get('init'):
            st.counters['cases_with_initial_data_in_constructor'] += 1
        for lay in b.layout:
            n = len(lay[6])
            st.counters['incoming_frames_len%s_%s' % ('7' if n <= 125 else '16' if n <= 0xFFFF else '64',
                                                      'masked' if case['key'] else 'unmasked')] += 1
        for (_k, p) in b.exp_out:
            n = len(p)
            st.counters['outgoing_messages_len%s_%s' % ('7' if n <= 125 else '16' if n <= 0xFFFF else '64', case['role'])] += 1
        if case['role'] == 'client':
            for e in w.log:
                if e[0] == 'out' and bytes(e[2][-1])[:1] == b'\x88' and len(e[2][-1]) > 1 and not bytes(e[2][-1])[1] & 0x80:
                    st.counters['observed_not_judged:client_role_close_frame_unmasked'] += 1
                    break
        if any(c not in ('boundary',) for c in classes) or frag or maxlen > 125 or b.actions or case.get('init') or \
                any(lay[3] >= 8 for lay in b.layout):
            st.interesting(case_json(case))
        if part == seed % nparts and idx in pick:
            st.sample({'case': case_json(case), 'segments': len(offs) + 1, 'observed': [list(map(str, o)) for o in observe(b, w)][:12]})
        for effect, text in bad:
            st.fail(signature(case, b, offs, effect), '%s  [case %r, cuts at %r: %s]'
                    % (text, case_json(case), offs[:8], [cut_class(o, b.layout) for o in offs[:8]]), case_json(case))
    return st


def run(tier, seed, workers):
    errs = ref_selftest()
    total = sum(1 for _ in cases(tier))
    st = core.parallel(_work, (tier, seed), workers, nparts=workers * 8 + 1)
    st.selfcheck_errors.extend(errs)
    probe = {'role': 'client', 'key': None, 'okeys': ['ff00ff00'], 'cuts': ['chunk', 3],
             'items': [['msg', 'T', 6, [1, 4], [[0, 'ping', 5]]], ['w', 'T', 126, 1], ['msg', 'B', 126, [], []], ['close', 5], ['msg', 'T', 1, [], []]]}
    b1, w1, _ = execute(probe)
    b2, w2, _ = execute(probe)
    if observe(b1, w1) != observe(b2, w2):
        st.selfcheck_errors.append('determinism: two runs of one case differ')
    if st.executions != total:
        st.selfcheck_errors.append('enumeration: executed %d of %d cases' % (st.executions, total))
    st.states = len(st.outcomes)
    st.bounds = {'cases': total, 'payload_lengths': list(LENS), 'masking_keys': list(KEYS), 'max_frames_per_message': 3,
                 'max_items_per_sequence': 3, 'control_payloads': [0, 5, 125],
                 'constructor_data': 'client role: first k bytes (k = every header offset, or all) given to the constructor',
                 'cuts': 'none; every single cut in/around each header (first 16 bytes) and payload end; every pair in a header region; '
                         'chunks 1/2/3/7 (short streams), 1460/4096 (long)',
                 'families': {k: st.counters['cases_' + k] for k, _ in FAMILIES}}
    for must in ('cases_with_cut_in_hdr2', 'cases_with_cut_in_extlen', 'cases_with_cut_in_maskkey', 'cases_with_cut_in_payload',
                 'cases_with_two_or_more_cuts', 'cases_with_ping_between_fragments',
                 'cases_with_utf8_character_split_by_fragment_boundary', 'cases_with_data_after_close_frame',
                 'cases_with_write_after_close', 'incoming_frames_len7_masked', 'incoming_frames_len16_masked',
                 'incoming_frames_len64_masked', 'incoming_frames_len7_unmasked', 'incoming_frames_len16_unmasked',
                 'incoming_frames_len64_unmasked', 'outgoing_messages_len7_server', 'outgoing_messages_len16_server',
                 'outgoing_messages_len64_server', 'outgoing_messages_len7_client', 'outgoing_messages_len16_client',
                 'outgoing_messages_len64_client'):
        if not st.counters[must]:
            st.selfcheck_errors.append('vacuity: counter %s is 0' % must)
    if not st.samples:
        st.sample({'case': probe, 'observed': [list(map(str, o)) for o in observe(b1, w1)][:12]})
    return st


def replay(witness):
    case = dict(witness)
    b, w, offs, bad = run_case(case)
    lines = ['case: %r' % (case_json(case),)]
    lines.append('incoming stream: %d bytes in %d frame(s); cuts at %r (%s)'
                 % (len(b.stream), len(b.layout), offs[:20], [cut_class(o, b.layout) for o in offs[:20]]))
    for lay in b.layout:
        lines.append('  frame @%d..%d header %d bytes opcode %d fin %s payload %s' % (lay[0], lay[2], lay[1], lay[3], lay[4], _short(lay[6])))
    lines.append('expected decoded: %r' % [(k, _short(p), 'optional' if o else '') for k, p, o in b.exp_reads])
    lines.append('expected pongs:   %r' % [(_short(p), 'optional' if o else '') for p, o in b.exp_pongs])
    lines.append('expected sent:    %r' % [(k, _short(p)) for k, p in b.exp_out])
    lines.append('observed:')
    for o in observe(b, w):
        lines.append('  ' + repr(o))
    for eff, text in bad:
        lines.append('VIOLATED %s: %s' % (signature(case, b, offs, eff), text))
    if not bad:
        lines.append('all clauses hold')
    return (not bad), '\n'.join(lines)
