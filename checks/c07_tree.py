"""C07 - the component tree stays a consistent forest under register/unregister.

Engine E1: BFS over histories of register / unregister / fire / broadcast-fire / tick(root) on a pool of real
components; structural invariants on the object graph after every operation, notification and delivery clauses
after a final drain of every root (performed on the world of that transition, after its canonical form was taken).
"""
from circuits.core.components import BaseComponent
from circuits.core.events import Event
from circuits.core.handlers import handler

from mc import core, e1_history

PROPERTY = 'C07'
LEVEL = 'model_checking'
RULE = ('BFS over histories of {register(c,p) with c fully detached and p outside its subtree, unregister(c) of an attached '
        'component, probe fired on c (own channel), broadcast fired from c, one tick of any current root with a non-empty queue}; '
        'state = canonical (forest, pending flags, per-root queue contents); non-trivial = state reached by a history that contains '
        'an unregister or a register of a component with a non-empty queue; distinct = distinct canonical state')
ASSUMPTIONS = [
    'preconditions of the operations are those of the statement and are evaluated on the real object graph at operation boundaries',
    'eventual completion of every requested unregistration is not judged (the statement does not promise it); such states are counted',
    'canonical state reads Manager._queue._queue via getattr; if absent histories are not merged',
]

LOG = []


class Node(BaseComponent):
    def unregisterChild(self, component):
        # (harness marker: the moment a component leaves the tree, in the order of everything else that is logged)
        LOG.append(('detach', None, getattr(component, 'label', None)))
        return super().unregisterChild(component)

    @handler('probe')
    def _on_probe(self, event, *a):
        LOG.append(('probe', event, self.label))

    @handler('bcast', channel='*')
    def _on_bcast(self, event, *a):
        LOG.append(('bcast', event, self.label))

    @handler('registered', channel='*')
    def _on_registered(self, event, *a):
        LOG.append(('registered', event, self.label))

    @handler('unregistered', channel='*')
    def _on_unregistered(self, event, *a):
        LOG.append(('unregistered', event, self.label))


class World:
    pass


def subtree(c):
    out = [c]
    for k in list(c.components):
        out.extend(subtree(k))
    return out


def top(c):
    seen = 0
    while c.parent is not c and seen < 100000:     # (a bound only against a parent cycle; forests of the thorough tier are 60 deep)
        c = c.parent
        seen += 1
    return c


class TreeModel(e1_history.Model):
    def __init__(self, n, init=(), probes=True):
        self.n = n
        self.init = tuple(init)     # registrations performed (and drained) before the history starts
        self.probes = probes

    def build(self, hist):
        del LOG[:]
        w = World()
        w.comps = []
        for i in range(self.n):
            c = Node(channel='ch%d' % i)
            c.label = i
            w.comps.append(c)
        w.nreg = 0
        w.completed_unreg = 0
        w.pending_seen = set()
        w.reg_pairs = []        # (component, parent) of every register() performed
        w.unreg_req = {}        # component -> its parent when unregister() was requested
        w.unreg_pairs = []      # (component, former parent) of every completed unregistration
        w.probes = []      # (event, kind, target label, allowed set, must: bool)
        w.bad = []
        w.has_unreg = False
        w.reg_with_queue = False
        for (c, p) in self.init:
            w.comps[c].register(w.comps[p])
        for c in w.comps:
            while c.parent is c and len(c):
                c.tick()
        del LOG[:]
        for op in hist:
            self.apply(w, op)
        return w

    def observe(self, w):
        """update ghost bookkeeping from the real graph at an operation boundary"""
        for c in w.comps:
            pend = bool(getattr(c, 'unregister_pending', False))
            if c.label in w.pending_seen and not pend and c.parent is c:
                w.pending_seen.discard(c.label)
                w.completed_unreg += 1
                w.unreg_pairs.append((c.label, w.unreg_req.pop(c.label, None)))
            elif c.label in w.pending_seen and not pend:
                # pending flag gone but still attached
                w.pending_seen.discard(c.label)
                w.bad.append(('unregister-vanished', 'c%d is no longer pending but still attached' % c.label))
        # allowed receivers of queued broadcasts grow with every tree the firing component has been in
        for p in w.probes:
            if p['kind'] == 'bcast' and not p['done']:
                p['allowed'] |= {x.label for x in subtree(top(w.comps[p['src']]))}
            if p['kind'] == 'iprobe' and not p['done'] and w.comps[p['tgt']] in subtree(top(w.comps[p['src']])):
                p['allowed'].add(p['tgt'])

    def apply(self, w, op):
        k = op[0]
        comps = w.comps
        if k == 'reg':
            c, p = comps[op[1]], comps[op[2]]
            if len(c):
                w.reg_with_queue = True
            c.register(p)
            LOG.append(('attach', None, (c.label, p.label)))
            w.nreg += 1
            w.reg_pairs.append((c.label, p.label))
        elif k == 'unreg':
            c = comps[op[1]]
            w.unreg_req[c.label] = c.parent.label
            c.unregister()
            w.pending_seen.add(c.label)
            w.has_unreg = True
            for p in w.probes:
                p['must'] = False   # a detach may overtake a queued probe: delivery is no longer required
        elif k == 'fire':
            c = comps[op[1]]
            e = Event.create('probe')
            clean = not any(getattr(x, 'unregister_pending', False) for x in comps)
            w.probes.append({'ev': e, 'kind': 'probe', 'src': op[1], 'allowed': {op[1]}, 'must': clean, 'done': False})
            c.fire(e)
        elif k == 'bfire':
            c = comps[op[1]]
            e = Event.create('bcast')
            w.probes.append({'ev': e, 'kind': 'bcast', 'src': op[1], 'allowed': {x.label for x in subtree(top(c))},
                             'must': False, 'done': False})
            c.fire(e, '*')
        elif k == 'ifire':
            # fired on component op[1], addressed to the component INSTANCE op[2] (wherever that one is)
            c, tgt = comps[op[1]], comps[op[2]]
            e = Event.create('probe')
            w.probes.append({'ev': e, 'kind': 'iprobe', 'src': op[1], 'tgt': op[2],
                             'allowed': ({op[2]} if tgt in subtree(top(c)) else set()), 'must': False, 'done': False})
            c.fire(e, tgt)
        elif k == 'tick':
            before = len(LOG)
            LOG.append(('tick-begin', None, op[1]))
            comps[op[1]].tick()
            self.account(w, before)
        self.observe(w)

    def account(self, w, start):
        for ent in LOG[start:]:
            if ent[0] in ('probe', 'bcast'):
                for p in w.probes:
                    if p['ev'] is ent[1]:
                        p['done'] = True
        # an instance-addressed probe whose holder's queue no longer contains it has been dispatched (possibly to nobody)
        for p in w.probes:
            if p['kind'] == 'iprobe' and not p['done']:
                held = False
                for c in w.comps:
                    q = getattr(getattr(c, '_queue', None), '_queue', None) or []
                    for item in q:
                        try:
                            if item[2][0] is p['ev']:
                                held = True
                        except Exception:  # noqa: BLE001
                            pass
                if not held:
                    p['done'] = True

    def enabled(self, hist):
        w = self.build(hist)
        comps = w.comps
        ops = []
        for c in comps:
            if c.parent is c and len(c):
                ops.append(('tick', c.label))
        if self.probes == 'inst':
            if sum(1 for p in w.probes if not p['done']) < 2:
                for c in comps:
                    for t in comps:
                        if t is not c:
                            ops.append(('ifire', c.label, t.label))
        elif self.probes and sum(1 for p in w.probes if not p['done']) < 2:   # at most two probes in flight (bounds the queues)
            for c in comps:
                ops.append(('fire', c.label))
            for c in comps:
                ops.append(('bfire', c.label))
        for c in comps:
            pend = any(getattr(x, 'unregister_pending', False) for x in subtree(c))
            if c.parent is c and not pend:
                sub = set(x.label for x in subtree(c))
                for p in comps:
                    if p.label not in sub:
                        ops.append(('reg', c.label, p.label))
            elif c.parent is not c and not getattr(c, 'unregister_pending', False):
                ops.append(('unreg', c.label))
        return ops

    def invariants(self, w, where, st_bad):
        comps = w.comps
        for c in comps:
            if c.parent is not c and c not in c.parent.components:
                st_bad.append(('I1-links', '%s: c%d.parent is c%d but c%d is not among its children' % (where, c.label, c.parent.label, c.label)))
            for k in c.components:
                if k.parent is not c:
                    st_bad.append(('I1-links', '%s: c%d lists child c%d whose parent is c%d' % (where, c.label, k.label, getattr(k.parent, 'label', -1))))
            if c.root is not top(c):
                st_bad.append(('I2-root', '%s: c%d.root is c%d but the top of its tree is c%d' % (where, c.label, getattr(c.root, 'label', -1), top(c).label)))
        # forest: nobody is its own ancestor, each component has at most one parent listing it
        for c in comps:
            owners = [p.label for p in comps if c in p.components]
            if len(owners) > 1:
                st_bad.append(('I1-links', '%s: c%d is a child of several components %r' % (where, c.label, owners)))
            x, n = c, 0
            while x.parent is not x and n <= len(comps):
                x = x.parent
                n += 1
            if n > len(comps):
                st_bad.append(('I1-cycle', '%s: cycle through c%d' % (where, c.label)))

    def check(self, hist, w, st):
        bad = list(w.bad)
        self.invariants(w, 'after %r' % (hist[-1],) if hist else 'initially', bad)
        key = self.canon(w)
        w._canon = key
        # final drain of every root (this world is discarded afterwards)
        for _ in range(40):
            busy = False
            for c in w.comps:
                if c.parent is c and len(c):
                    before = len(LOG)
                    LOG.append(('tick-begin', None, c.label))
                    c.tick()
                    self.account(w, before)
                    self.observe(w)
                    busy = True
            if not busy:
                break
        else:
            bad.append(('no-quiescence', 'roots still busy after 40 drain rounds'))
        self.invariants(w, 'after final drain', bad)
        regs = {}
        unregs = {}
        for ent in LOG:
            if ent[0] == 'registered':
                regs.setdefault(id(ent[1]), []).append(ent[2])
            elif ent[0] == 'unregistered':
                unregs.setdefault(id(ent[1]), []).append(ent[2])
        for d, what, exp in ((regs, 'registered', w.nreg), (unregs, 'unregistered', w.completed_unreg)):
            if len(d) != exp:
                bad.append(('I3-%s-count' % what, '%d distinct `%s` events were dispatched for %d completed operations' % (len(d), what, exp)))
            for k, seen in d.items():
                if len(seen) != len(set(seen)):
                    bad.append(('I3-%s-twice' % what, 'one `%s` event was delivered twice to the same component: %r' % (what, seen)))
        # a component receives nothing from a tree it has left: replay the log with a ghost forest that follows the attach /
        # detach markers; every delivery must go to a member of the tree of the root that is being ticked at that moment
        gpar = {i: None for i in range(self.n)}
        for (c_, p_) in self.init:
            gpar[c_] = p_

        def groot(i):
            n_ = 0
            while gpar[i] is not None and n_ <= self.n:
                i = gpar[i]
                n_ += 1
            return i
        cur = None
        for ent in LOG:
            if ent[0] == 'attach':
                gpar[ent[2][0]] = ent[2][1]
            elif ent[0] == 'detach':
                gpar[ent[2]] = None
            elif ent[0] == 'tick-begin':
                cur = ent[2]
            elif ent[0] in ('probe', 'bcast') and cur is not None and groot(ent[2]) != cur:
                bad.append(('I6-delivery-after-detach', 'c%d received a %s event dispatched by root c%d although it had already left that tree'
                            % (ent[2], ent[0], cur)))
        # ... and every announcement names the component and the parent it joined / left
        for what, exp in (('registered', w.reg_pairs), ('unregistered', w.unreg_pairs)):
            named = {}
            for ent in LOG:
                if ent[0] == what:
                    named[id(ent[1])] = tuple(getattr(a, 'label', None) for a in ent[1].args[:2])
            if sorted(named.values(), key=repr) != sorted(exp, key=repr) and len(named) == len(exp):
                bad.append(('I3-%s-names' % what, '`%s` events announced (component, parent) pairs %r, the completed operations were %r'
                            % (what, sorted(named.values(), key=repr), sorted(exp, key=repr))))
        for p in w.probes:
            got = [ent[2] for ent in LOG if ent[0] in ('probe', 'bcast') and ent[1] is p['ev']]
            if len(got) != len(set(got)):
                bad.append(('I4-duplicate', '%s fired on c%d was delivered %r' % (p['kind'], p['src'], got)))
            extra = [g for g in got if g not in p['allowed']]
            if extra:
                bad.append(('I5-foreign-delivery', '%s fired on c%d reached c%r which was never in its tree between fire and dispatch (allowed %r)'
                            % (p['kind'], p['src'], extra, sorted(p['allowed']))))
            if p['must'] and p['kind'] == 'probe' and got != [p['src']]:
                bad.append(('I4-lost', 'probe fired on c%d (no unregistration pending or requested later) was delivered to %r' % (p['src'], got)))
        st.executions += 1
        if w.has_unreg or w.reg_with_queue:
            st.interesting(('state', key if key is not None else hist))
        if w.reg_with_queue:
            st.counters['histories_registering_a_component_with_queued_events'] += 1
        if w.pending_seen:
            st.counters['final_states_with_unregistration_still_pending(not judged)'] += 1
        st.outcome((key, tuple(sorted(b[0] for b in bad))))
        for kind, text in bad:
            st.fail(kind, '%s  [history %r]' % (text, list(hist)), {'n': self.n, 'init': [list(i) for i in self.init], 'probes': self.probes, 'hist': [list(o) for o in hist]})
        if len(hist) == 4 and len(st.samples) < 2:
            st.sample({'hist': [list(o) for o in hist]})

    def canon(self, w):
        if hasattr(w, '_canon'):
            return w._canon
        comps = w.comps
        forest = tuple(c.parent.label if c.parent is not c else None for c in comps)
        pend = tuple(bool(getattr(c, 'unregister_pending', False)) for c in comps)
        queues = []
        for c in comps:
            q = getattr(getattr(c, '_queue', None), '_queue', None)
            if q is None:
                return None
            ents = []
            for item in q:
                try:
                    ev, chans = item[2]
                except Exception:  # noqa: BLE001
                    return None
                extra = None
                for p in w.probes:
                    if p['ev'] is ev:
                        extra = (p['src'], tuple(sorted(p['allowed'])), p['must'])
                args = tuple(getattr(a, 'label', None) for a in getattr(ev, 'args', ()))
                ents.append((ev.name, tuple(getattr(ch, 'label', ch) if not isinstance(ch, str) else ch for ch in chans), args, extra,
                             bool(getattr(ev, 'complete', False))))
            queues.append(tuple(ents))
        # handler caches decide who receives future events: they are part of the state
        caches = []
        for c in comps:
            cache = getattr(c, '_cache', None)
            flag = getattr(c, '_cache_needs_refresh', None)
            if cache is None or flag is None:
                return None
            ent = []
            for (name, chans), hs in cache.items():
                ent.append((name, tuple(getattr(ch, 'label', ch) if not isinstance(ch, str) else ch for ch in chans),
                            tuple(sorted(getattr(getattr(h, '__self__', None), 'label', -1) for h in hs))))
            caches.append((bool(flag), tuple(sorted(ent, key=repr))))
        return (forest, pend, tuple(queues), tuple(caches))


def run(tier, seed, workers):
    if tier == 'quick':
        plan = [(3, (), True, 5), (3, ((1, 0),), True, 6), (3, ((1, 0), (2, 1)), True, 5), (4, ((1, 0), (2, 1), (3, 2)), False, 4),
                (4, (), False, 4), (3, ((1, 0), (2, 1)), 'inst', 4)]
    else:
        plan = [(3, (), True, 7), (3, ((1, 0),), True, 8), (3, ((1, 0), (2, 1)), True, 7), (4, ((1, 0), (2, 1), (3, 2)), False, 7),
                (4, (), False, 6), (4, ((1, 0), (2, 0)), True, 5), (3, ((1, 0), (2, 1)), 'inst', 6), (3, ((1, 0),), 'inst', 6)]
    total = core.Stats()
    states = 0
    for n, init, probes, depth in plan:
        st = e1_history.bfs(TreeModel(n, init, probes), depth, workers, seed, max_states=600000)
        tag = 'pool%d_init%s%s' % (n, ''.join('%d>%d' % (p, c) for c, p in init) or 'flat', '' if probes is True else ('_instance-addressed' if probes else '_noprobes'))
        st.bounds = {tag: dict(st.bounds)}
        states += st.states
        total.merge(st)
    # larger forests (one long history each, not a search)
    for n in ((16,) if tier == 'quick' else (16, 60)):
        model = TreeModel(n, (), True)
        chain = [('reg', i, i - 1) for i in range(1, n)]                       # a chain 0 <- 1 <- ... <- n-1, bottom-up queues drained by ticks
        star = [('reg', i, 0) for i in range(1, n)]
        for shape in (chain, star):
            hist = list(shape) + [('tick', 0)] * 3 + [('fire', n - 1), ('bfire', n // 2), ('tick', 0), ('tick', 0)]
            hist += [('unreg', n // 2), ('fire', n // 2), ('tick', 0), ('tick', 0), ('tick', 0), ('tick', n // 2)]
            hist += [('reg', n // 2, n - 1 if shape is star else 0), ('tick', 0), ('bfire', 0), ('tick', 0), ('unreg', n - 1), ('unreg', 1), ('tick', 0), ('tick', 0), ('tick', 0)]
            # judged after every prefix of the second half
            for cutoff in range(len(shape), len(hist) + 1, 3):
                h = tuple(hist[:cutoff])
                w = model.build(h)
                sst = core.Stats()
                model.check(h, w, sst)
                sst.samples = []
                sst.counters['large_forest_histories'] += 1
                total.merge(sst)
    total.states = states
    if not total.counters['histories_registering_a_component_with_queued_events']:
        total.selfcheck_errors.append('vacuity: no register of a component with queued events')
    return total


def replay(wj):
    model = TreeModel(wj['n'], [tuple(i) for i in wj.get('init', [])], wj.get('probes', True))
    hist = tuple(tuple(o) for o in wj['hist'])
    w = model.build(hist)
    st = core.Stats()
    model.check(hist, w, st)
    text = 'history %r\n' % (list(hist),)
    for sig, fl in st.failures.items():
        for f in fl:
            text += 'VIOLATED %s: %s\n' % (sig, f.message)
    if not st.failures:
        text += 'all invariants hold\n'
    return (not st.failures), text
