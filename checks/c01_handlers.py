"""C01 - events reach exactly the matching handlers, once, using the live handler set.

(a) matching product (E4): every forest of <= 3 components x component channels x handler sets x
    (event name, firing component, target channel) on fresh real components; oracle = the predicate of
    the statement.
(b) histories (E1): BFS over register / unregister / addHandler / removeHandler / probe histories on
    a pool of components; after every transition every current root is probed on a fresh replay of the
    history and compared with the ghost forest + ghost handler sets, and with a cold build of the same
    structure (differential).
"""
import itertools

from circuits.core.components import BaseComponent, Component
from circuits.core.events import Event
from circuits.core.handlers import handler

from mc import core, e1_history

PROPERTY = 'C01'
LEVEL = 'model_checking'
RULE = ('(a) product of forests x channels x handler sets x fires, each fire judged against the delivery predicate; '
        '(b) BFS over structural histories with canonical-state dedup (forest, dynamic handlers, per-component cache '
        'contents and dirty flags), the handler added / removed at run time being a named one (three variants) or one declared '
        'without names (catch-all on the component channel, global); non-trivial = a case in which at least one handler is expected to receive the event '
        'and at least one handler in the forest is expected NOT to, or (b) a state in which a structural change happened '
        'while some component held a warm cache')
ASSUMPTIONS = [
    'single target channel per fire (multi-channel fires are outside the statement)',
    'unregister is a macro-op: call, then tick the root until the component is detached',
    'canonical state reads Manager._cache/_cache_needs_refresh via getattr; if absent, histories are not merged',
]

LOG = []
ALL = []     # every delivery since the current world was built (never cleared by probes)


def _log(self, event, hid):
    eid = getattr(event, 'eid', None)
    if eid is not None:
        LOG.append((eid, self.label, hid))
        ALL.append((eid, self.label, hid))


# ---- handler menu ----------------------------------------------------------------------------
# ghost description of a handler: (hid, names, channel override)   names=() means all events

class Plain(BaseComponent):
    pass


class H1(BaseComponent):
    @handler('e')
    def h1(self, event, *a, **k):
        _log(self, event, 'H1')


class H2(BaseComponent):
    @handler('e', channel='a')
    def h2(self, event, *a, **k):
        _log(self, event, 'H2')


class H3(BaseComponent):
    @handler('e', channel='*')
    def h3(self, event, *a, **k):
        _log(self, event, 'H3')


class H4(BaseComponent):
    @handler()
    def h4(self, event, *a, **k):
        _log(self, event, 'H4')


class H5(BaseComponent):
    @handler(channel='a')
    def h5(self, event, *a, **k):
        _log(self, event, 'H5')


class H6(BaseComponent):
    @handler(channel='*')
    def h6(self, event, *a, **k):
        _log(self, event, 'H6')


class Base7(BaseComponent):
    @handler('e')
    def hb(self, event, *a, **k):
        _log(self, event, 'H7base')


class H7(Base7):
    @handler('e')
    def hb(self, event, *a, **k):
        _log(self, event, 'H7sub')


class H8(Base7):
    @handler('e', override=True)
    def hb(self, event, *a, **k):
        _log(self, event, 'H8sub')


class H73(H7):
    # third level: re-declares the name again (no override): its own handler plus the one of its direct base class
    @handler('e')
    def hb(self, event, *a, **k):
        _log(self, event, 'H73sub')


class H9(Component):
    def e(self, event, *a, **k):
        _log(self, event, 'H9')


class H14(BaseComponent):
    @handler('e')
    def h1(self, event, *a, **k):
        _log(self, event, 'H1')

    @handler()
    def h4(self, event, *a, **k):
        _log(self, event, 'H4')


class H26(BaseComponent):
    @handler('e', channel='a')
    def h2(self, event, *a, **k):
        _log(self, event, 'H2')

    @handler(channel='*')
    def h6(self, event, *a, **k):
        _log(self, event, 'H6')


class HM(BaseComponent):
    # a handler declared for two names next to one declared for only one of them (the name buckets must stay separate)
    @handler('e', 'f')
    def a_multi(self, event, *a, **k):
        _log(self, event, 'HMa')

    @handler('f')
    def z_single(self, event, *a, **k):
        _log(self, event, 'HMz')


class H1f(BaseComponent):
    @handler('e', 'f', channel='b')
    def h1f(self, event, *a, **k):
        _log(self, event, 'H1f')


E = ('e',)
MENU = {
    'none': (Plain, []),
    'H1': (H1, [('H1', E, None)]),
    'H2': (H2, [('H2', E, 'a')]),
    'H3': (H3, [('H3', E, '*')]),
    'H4': (H4, [('H4', (), None)]),
    'H5': (H5, [('H5', (), 'a')]),
    'H6': (H6, [('H6', (), '*')]),
    'H7': (H7, [('H7base', E, None), ('H7sub', E, None)]),
    'H8': (H8, [('H8sub', E, None)]),
    'H73': (H73, [('H7sub', E, None), ('H73sub', E, None)]),
    'H9': (H9, [('H9', E, None)]),
    'H14': (H14, [('H1', E, None), ('H4', (), None)]),
    'H26': (H26, [('H2', E, 'a'), ('H6', (), '*')]),
    'H1f': (H1f, [('H1f', ('e', 'f'), 'b')]),
    'HM': (HM, [('HMa', ('e', 'f'), None), ('HMz', ('f',), None)]),
}
QUICK_MENU = ['none', 'H1', 'H2', 'H4', 'H6', 'H7', 'H8', 'H73', 'H9', 'HM']
CHANNELS = ('*', 'a', 'b')
# forests over labelled nodes 0..n-1 as parent vectors (None = root); one per unlabelled shape
SHAPES = {
    1: [(None,)],
    2: [(None, 0), (None, None)],
    3: [(None, 0, 1), (None, 0, 0), (None, 0, None), (None, None, None)],
}


def expected(forest, chans, menu, firer, name, target):
    """Reference predicate written from the statement.  target: channel string or ('inst', i)."""
    def root(i):
        while forest[i] is not None:
            i = forest[i]
        return i
    out = []
    members = [i for i in range(len(forest)) if root(i) == root(firer)]
    for c in members:
        for hid, names, override in MENU[menu[c]][1]:
            if names and name not in names:
                continue
            hch = override if override is not None else chans[c]
            if isinstance(target, tuple):
                ok = hch == '*' or target[1] == c
            else:
                ok = target == '*' or hch == '*' or hch == target
            if ok:
                out.append((c, hid))
    return sorted(out)


def build_forest(forest, chans, menu):
    comps = []
    for i in range(len(forest)):
        c = MENU[menu[i]][0](channel=chans[i])
        c.label = i
        comps.append(c)
    for i, p in enumerate(forest):
        if p is not None:
            comps[i].register(comps[p])
    return comps


def drain(root, limit=20):
    n = 0
    while len(root) and n < limit:
        root.flush()
        n += 1
    return not len(root)


def fire_probe(comps, firer, name, target, eid):
    e = Event.create(name)
    e.eid = eid
    del LOG[:]
    if target is None:
        comps[firer].fire(e)
    elif isinstance(target, tuple):
        comps[firer].fire(e, comps[target[1]])
    else:
        comps[firer].fire(e, target)
    r = comps[firer].root
    drain(r)
    return sorted((lab, hid) for (i, lab, hid) in LOG if i == eid), e


def product_cases(tier):
    menu = QUICK_MENU if tier == 'quick' else list(MENU)
    for n in (1, 2, 3):
        for forest in SHAPES[n]:
            if tier == 'quick' and forest == (None, None, None):
                continue    # three unrelated singletons add nothing over the one-component cases
            for chans in itertools.product(CHANNELS, repeat=n):
                if tier == 'quick' and n == 3 and chans[2] == 'b':
                    continue    # quick: the third component only on '*' or 'a' (all 27 combinations in thorough)
                for m in itertools.product(menu, repeat=n):
                    yield forest, chans, m


def _work_product(part, nparts, payload):
    tier, seed = payload
    core.quiet_stderr()
    st = core.Stats()
    for idx, (forest, chans, menu) in enumerate(itertools.islice(product_cases(tier), part, None, nparts)):
        comps = build_forest(forest, chans, menu)
        for r in {c.root for c in comps}:
            drain(r)  # 'registered' events
        n = len(forest)
        eid = 0
        for name in ('e', 'f'):
            for firer in range(n):
                targets = [None, 'a', 'b', '*'] + [('inst', i) for i in range(n)]
                for target in targets:
                    eid += 1
                    got, ev = fire_probe(comps, firer, name, target, eid)
                    eff = target if target is not None else chans[firer]
                    exp = expected(forest, chans, menu, firer, name, eff)
                    st.executions += 1
                    st.outcome((forest, chans, menu, firer, name, target, tuple(got)))
                    total_handlers = sum(len(MENU[m][1]) for m in menu)
                    if exp and len(exp) < total_handlers:
                        st.interesting((forest, chans, menu, firer, name, target))
                        st.counters['product_cases_selective'] += 1
                    if got != exp:
                        missing = [x for x in exp if x not in got]
                        extra = list(got)
                        for x in exp:
                            if x in extra:
                                extra.remove(x)
                        kind = 'product:' + ('missing' if missing else 'extra-or-duplicate')
                        st.fail(kind, 'forest=%r channels=%r handlers=%r fire %s from c%d on %r: delivered %r, expected %r'
                                % (forest, chans, menu, name, firer, target, got, exp),
                                {'part': 'product', 'forest': forest, 'chans': chans, 'menu': menu, 'firer': firer,
                                 'name': name, 'target': target})
                    if part == seed % nparts and idx == 3 and eid in (1, 9):
                        st.sample({'part': 'product', 'forest': forest, 'chans': chans, 'menu': menu, 'firer': firer,
                                   'name': name, 'target': target, 'delivered': got})
    return st


# ---- (b) histories ---------------------------------------------------------------------------

class Node(BaseComponent):
    @handler('e', 'g')
    def fixed(self, event, *a, **k):
        _log(self, event, 'fixed')


def _dyn(self, event, *a, **k):
    _log(self, event, 'dyn')


def _dyn1(self, event, *a, **k):
    _log(self, event, 'dyn')


def _dyn2(self, event, *a, **k):
    _log(self, event, 'dyn')


# the handler added / removed at run time, by component index modulo 3:
#   0: declared for three names, the only handler of its component for the first two (removing it whole has to work through
#      every name);   1, 2: every name is shared with the component's fixed handler, so that no name bucket empties when it is
#      removed (and the same function can be added again later)
DYN = ((_dyn, ('h', 'i', 'e')), (_dyn1, ('e',)), (_dyn2, ('e', 'g')))


def _dyn3(self, event, *a, **k):
    _log(self, event, 'dyn')


def _dyn4(self, event, *a, **k):
    _log(self, event, 'dyn')


# the same for handlers declared without names: a catch-all on the component's channel, a global one (channel '*')
DYN_NAMELESS = ((_dyn3, (), {}), (_dyn4, (), {'channel': '*'}))


def dyn_handler(variant, i):
    """-> (decorated function, names or None for 'every name') of the run-time handler of component i"""
    if variant == 'nameless':
        fn, names, kw = DYN_NAMELESS[i % 2]
        return handler(*names, **kw)(fn), None
    fn, names = DYN[i % 3]
    return handler(*names)(fn), names


class Ghost:
    def __init__(self, n):
        self.parent = [None] * n
        self.dyn = [False] * n
        self.warm_elsewhere_changes = 0

    def root(self, i):
        while self.parent[i] is not None:
            i = self.parent[i]
        return i

    def subtree(self, i):
        out = {i}
        grew = True
        while grew:
            grew = False
            for j, p in enumerate(self.parent):
                if p in out and j not in out:
                    out.add(j)
                    grew = True
        return out

    def apply(self, op):
        k = op[0]
        if k == 'reg':
            self.parent[op[1]] = op[2]
        elif k == 'unreg':
            self.parent[op[1]] = None
        elif k == 'add':
            self.dyn[op[1]] = True
        elif k == 'rem':
            self.dyn[op[1]] = False

    def expected(self, firer):
        r = self.root(firer)
        out = []
        for c in sorted(self.subtree(r)):
            out.append((c, 'fixed'))
            if self.dyn[c]:
                out.append((c, 'dyn'))
        return sorted(out)


class World:
    pass


class HistModel(e1_history.Model):
    def __init__(self, n, fireq=False, variant='named'):
        self.n = n
        self.fireq = fireq     # also explore "fire without flush" (at most one per history)
        self.variant = variant  # which kind of handler is added / removed at run time: 'named' | 'nameless'

    def ghost(self, hist):
        g = Ghost(self.n)
        for op in hist:
            g.apply(op)
        return g

    def enabled(self, hist):
        g = self.ghost(hist)
        ops = []
        for x in range(self.n):
            ops.append(('probe', x))
        if self.fireq and not any(o[0] == 'fireq' for o in hist):
            for x in range(self.n):
                ops.append(('fireq', x))      # fire without flushing: dispatched by whoever flushes the holding root next
        for x in range(self.n):
            ops.append(('rem', x) if g.dyn[x] else ('add', x))
        for x in range(self.n):
            if g.parent[x] is None:
                sub = g.subtree(x)
                for y in range(self.n):
                    if y not in sub:
                        ops.append(('reg', x, y))
            else:
                ops.append(('unreg', x))
        return ops

    def build(self, hist):
        w = World()
        w.comps = []
        for i in range(self.n):
            c = Node()
            c.label = i
            w.comps.append(c)
        w.dynh = [None] * self.n
        w.ghost = Ghost(self.n)
        w.warm_change = False
        w.stuck = None
        w.eid = 1000
        w.queued = []     # (eid, holder, index of the op that fired it)
        w.queued_done = set()
        w.queued_bad = []
        w.ghost_hist = list(hist)
        del ALL[:]
        for i, op in enumerate(hist):
            w.opindex = i
            self.apply(w, op)
        return w

    def apply(self, w, op):
        k = op[0]
        comps = w.comps
        # an event fired earlier without a flush sits in the queue of the ghost root of its holder; the operation that flushes
        # that root dispatches it - to exactly the handlers in force then (tree before the detach for unregister, tree after
        # the registration for register)
        g = w.ghost
        pend_expect = []
        for (eid, holder, idx, _ev) in [q for q in w.queued if q[0] not in w.queued_done]:
            loc = g.root(holder)
            if k == 'probe' and g.root(op[1]) == loc:
                pend_expect.append((eid, holder, g.expected(loc)))
            elif k == 'unreg' and g.root(op[1]) == loc:
                pend_expect.append((eid, holder, g.expected(loc)))
            elif k == 'reg' and loc in (g.root(op[1]), g.root(op[2])):
                g2 = Ghost(self.n)
                g2.parent, g2.dyn = list(g.parent), list(g.dyn)
                g2.apply(op)
                pend_expect.append((eid, holder, g2.expected(op[2])))
        self._apply(w, op)
        for eid, holder, exp in pend_expect:
            w.queued_done.add(eid)
            got = sorted((lab, hid) for (i, lab, hid) in ALL if i == eid)
            if got != exp:
                w.queued_bad.append((eid, holder, got, exp, op))

    def _apply(self, w, op):
        k = op[0]
        comps = w.comps
        if k != 'probe':
            # collision counter: structural change while a component other than the affected root holds a warm cache
            for c in comps:
                if getattr(c, '_cache', None):
                    w.warm_change = True
        if k == 'reg':
            comps[op[1]].register(comps[op[2]])
            drain(comps[op[2]].root)
        elif k == 'unreg':
            x = comps[op[1]]
            r = x.root
            x.unregister()
            for _ in range(12):
                if x.parent is x:
                    break
                r.tick()
            if x.parent is not x:
                w.stuck = op
            drain(r)
            drain(x)
        elif k == 'add':
            w.dynh[op[1]] = comps[op[1]].addHandler(dyn_handler(self.variant, op[1])[0])
        elif k == 'rem':
            comps[op[1]].removeHandler(w.dynh[op[1]])
            w.dynh[op[1]] = None
        elif k == 'probe':
            w.eid += 1
            fire_probe(comps, op[1], 'e', None, w.eid)
        elif k == 'fireq':
            w.eid += 1
            e = Event.create('e')
            e.eid = w.eid
            w.queued.append((w.eid, op[1], getattr(w, 'opindex', 0), e))
            comps[op[1]].fire(e)
        w.ghost.apply(op)

    def cold(self, ghost):
        comps = []
        for i in range(self.n):
            c = Node()
            c.label = i
            comps.append(c)
        # register parents before children so that the final shape is built top-down
        done = set()
        while len(done) < self.n:
            for i in range(self.n):
                if i in done:
                    continue
                p = ghost.parent[i]
                if p is None:
                    done.add(i)
                elif p in done:
                    comps[i].register(comps[p])
                    done.add(i)
        for i in range(self.n):
            if ghost.dyn[i]:
                comps[i].addHandler(dyn_handler(self.variant, i)[0])
        for r in {c.root for c in comps}:
            drain(r)
        return comps

    def check(self, hist, w, st):
        g = w.ghost
        w._canon = self.canon(w)
        self.check_queued(hist, w, st)     # first: it reads the global delivery list, which clones built below overwrite
        if w.stuck is not None:
            st.counters['unregister_did_not_complete'] += 1
            return
        if w.warm_change:
            st.counters['states_reached_with_structural_change_while_a_cache_was_warm'] += 1
            st.interesting(('hist', hist))
        roots = [i for i in range(self.n) if g.parent[i] is None]
        for r in roots:
            # probe on a clone of the history so that probing does not perturb the explored state
            clone = self.build(hist)
            got, _ = fire_probe(clone.comps, r, 'e', None, 1)
            exp = g.expected(r)
            st.executions += 1
            st.outcome((tuple(g.parent), tuple(g.dyn), r, tuple(got)))
            if got != exp:
                missing = [x for x in exp if x not in got]
                kind = 'history:' + ('missing' if missing else 'extra-or-duplicate')
                st.fail(kind, 'after %r a fire on root c%d delivered %r, expected %r (forest %r, dynamic %r)'
                        % (list(hist), r, got, exp, g.parent, g.dyn),
                        {'part': 'history', 'n': self.n, 'variant': self.variant, 'hist': [list(o) for o in hist], 'probe': r})
            # an event named 'g' reaches the fixed handlers and those run-time handlers that are declared for it
            clone = self.build(hist)
            got_g, _ = fire_probe(clone.comps, r, 'g', None, 2)
            exp_g = [x for x in exp if x[1] == 'fixed' or dyn_handler(self.variant, x[0])[1] is None or 'g' in dyn_handler(self.variant, x[0])[1]]
            st.executions += 1
            if got_g != exp_g:
                st.fail('history:other-name:' + ('missing' if [x for x in exp_g if x not in got_g] else 'extra-or-duplicate'),
                        'after %r an event named g fired on root c%d was delivered to %r, expected %r' % (list(hist), r, got_g, exp_g),
                        {'part': 'history', 'n': self.n, 'variant': self.variant, 'hist': [list(o) for o in hist], 'probe': r})
            coldc = self.cold(g)
            got2, _ = fire_probe(coldc, r, 'e', None, 1)
            if got2 != got and got == exp:
                st.fail('history:cold-differs', 'cold build of forest %r/%r delivered %r, history %r delivered %r'
                        % (g.parent, g.dyn, got2, list(hist), got),
                        {'part': 'history', 'n': self.n, 'variant': self.variant, 'hist': [list(o) for o in hist], 'probe': r})
        if len(hist) in (3, 5) and len(st.samples) < 3:
            st.sample({'part': 'history', 'hist': [list(o) for o in hist], 'forest': list(g.parent), 'dyn': list(g.dyn)})

    def check_queued(self, hist, w, st):
        # events fired without a flush: after draining every root, each was delivered to nobody twice, to its holder's own
        # handler exactly once (unless an unregister happened after the fire: the detach may overtake it), and only to
        # components that shared a tree with the holder at some point after the fire
        if w.queued:
            st.counters['histories_with_events_queued_across_structural_changes'] += 1
            for _ in range(12):
                busy = False
                for c in w.comps:
                    if c.parent is c and len(c):
                        c.flush()
                        busy = True
                if not busy:
                    break
            for eid, holder, got, exp, op in w.queued_bad:
                missing = [x for x in exp if x not in got]
                st.fail('history:queued-event-' + ('missing-handler' if missing else 'extra-or-duplicate'),
                        'event fired on c%d without a flush, dispatched by %r: delivered %r, handlers in force then %r  [history %r]'
                        % (holder, op, got, exp, list(hist)), {'part': 'history', 'n': self.n, 'hist': [list(o) for o in hist], 'probe': holder})
            for eid, holder, idx, _ev in w.queued:
                got = [(lab, hid) for (i, lab, hid) in ALL if i == eid]
                if len(got) != len(set(got)):
                    st.fail('history:queued-event-delivered-twice', 'event fired on c%d (op %d, not flushed) was delivered %r  [history %r]'
                            % (holder, idx, sorted(got), list(hist)), {'part': 'history', 'n': self.n, 'hist': [list(o) for o in hist], 'probe': holder})
                later_unreg = any(o[0] == 'unreg' for o in hist[idx + 1:])
                if not later_unreg and got.count((holder, 'fixed')) != 1:
                    st.fail('history:queued-event-lost', 'event fired on c%d (op %d, not flushed) reached its own handler %d times: %r  [history %r]'
                            % (holder, idx, got.count((holder, 'fixed')), sorted(got), list(hist)),
                            {'part': 'history', 'n': self.n, 'hist': [list(o) for o in hist], 'probe': holder})

    def canon(self, w):
        if hasattr(w, '_canon'):
            return w._canon
        g = w.ghost
        sig = []
        for c in w.comps:
            cache = getattr(c, '_cache', None)
            flag = getattr(c, '_cache_needs_refresh', None)
            if cache is None or flag is None:
                return None
            ent = []
            for key, hs in cache.items():
                name, chans = key
                if name != 'e':
                    # registered/unregistered/prepare_unregister caches: only handlers of internal events; keep key only
                    ent.append((name, len(chans)))
                    continue
                ent.append((name, tuple('inst%d' % x.label if hasattr(x, 'label') else repr(x) for x in chans),
                            tuple(sorted((getattr(h.__self__, 'label', -1), h.__name__) for h in hs))))
            sig.append((bool(flag), tuple(sorted(ent))))
        qsig = tuple(len(c) for c in w.comps)
        return (tuple(g.parent), tuple(g.dyn), tuple(sig), qsig, tuple((h, sum(1 for o in w.ghost_hist[i + 1:] if o[0] == 'unreg') > 0)
                                                                      for (_e, h, i, _x) in w.queued))


def run(tier, seed, workers):
    st = core.parallel(_work_product, (tier, seed), workers, nparts=workers * 4)
    st.bounds['product_forests'] = sum(1 for _ in product_cases(tier))
    st.bounds['product_fires'] = st.executions
    plan = [(3, 6, False, 'named'), (3, 4, True, 'named'), (3, 5, False, 'nameless')] if tier == 'quick' else [
        (3, 8, False, 'named'), (3, 7, True, 'named'), (4, 5, True, 'named'), (3, 7, False, 'nameless'), (3, 5, True, 'nameless')]
    states = transitions = 0
    for n, depth, fq, variant in plan:
        hs = e1_history.bfs(HistModel(n, fq, variant), depth, workers, seed, max_states=400000)
        hs.bounds = {'history_pool%d%s%s_%s' % (n, '_with_unflushed_fire' if fq else '', '_nameless' if variant == 'nameless' else '', k): v
                     for k, v in hs.bounds.items()}
        states += hs.states
        transitions += hs.transitions
        st.merge(hs)
    st.states = states
    st.transitions = transitions
    if not st.counters['states_reached_with_structural_change_while_a_cache_was_warm']:
        st.selfcheck_errors.append('vacuity: no history changed the structure while a cache was warm')
    if not st.counters['product_cases_selective']:
        st.selfcheck_errors.append('vacuity: no selective delivery in the product')
    return st


def replay(w):
    if w['part'] == 'product':
        forest, chans, menu = tuple(w['forest']), tuple(w['chans']), tuple(w['menu'])
        comps = build_forest(forest, chans, menu)
        for r in {c.root for c in comps}:
            drain(r)
        target = tuple(w['target']) if isinstance(w['target'], list) else w['target']
        got, _ = fire_probe(comps, w['firer'], w['name'], target, 1)
        eff = target if target is not None else chans[w['firer']]
        exp = expected(forest, chans, menu, w['firer'], w['name'], eff)
        return got == exp, 'case %r\ndelivered %r\nexpected  %r' % (w, got, exp)
    model = HistModel(w['n'], True, w.get('variant', 'named'))
    hist = tuple(tuple(o) for o in w['hist'])
    world = model.build(hist)
    got, _ = fire_probe(world.comps, w['probe'], 'e', None, 1)
    exp = world.ghost.expected(w['probe'])
    return got == exp, 'history %r then fire on c%d\ndelivered %r\nexpected  %r' % (list(hist), w['probe'], got, exp)
