"""C13 - HTTP requests are parsed identically however the stream is segmented.

Engine E4, differential oracle: every well-formed message of a grammar x every cut of its bytes into reads (no cut = baseline,
every single cut, pairs of cuts, byte-at-a-time) is delivered to the real HTTP server component (request events + response
bytes compared with one-piece delivery) and to the real HTTP client component (response events compared).
"""
import itertools

from circuits.core.components import BaseComponent
from circuits.core.handlers import handler
from circuits.net.events import read
from circuits.protocols.http import HTTP as ClientHTTP

from mc import core, httpharness as hh

PROPERTY = 'C13'
LEVEL = 'model_checking'
RULE = ('message grammar: method {GET, POST, HEAD} x target {/, /p?x=1&y=2} x version {1.0, 1.1} x header sets {Host; + folded '
        'continuation line; + Connection keep-alive / close} x body {none, Content-Length 0, Content-Length 5, chunked: 1 chunk (also announced as Chunked, with a capital), 2 chunks, '
        'chunk extension, trailer}; alone or as two keep-alive requests (second after the first response); client side: status '
        '{200, 204, 304, 404} x framing {Content-Length, chunked, until-close} x 1-2 responses; each message x {every single cut, '
        'pairs of cuts (quick: around structural boundaries; thorough: all), byte-at-a-time}; oracle = equality with one-piece delivery; '
        'non-trivial = every segmented delivery; distinct = distinct (message, cut set)')
ASSUMPTIONS = [
    'responses are compared modulo Date/Last-Modified/Expires headers',
    'no pipelining: the second request of a keep-alive pair is sent after the first response has been written',
    'the request handler echoes method, path, query string, selected headers and body, so the response depends on everything parsed',
]


class Echo(BaseComponent):
    channel = 'web'

    @handler('request', priority=0.5)
    def _on_request(self, event, req, res, *a):
        body = req.body.read() if hasattr(req.body, 'read') else b''
        hdrs = ','.join('%s=%s' % (k.lower(), v) for k, v in sorted(req.headers.items()) if k.lower().startswith('x-'))
        return 'M=%s P=%s Q=%s V=%s H=[%s] B=%r' % (req.method, req.path, req.qs, req.protocol, hdrs, body)


def request_messages():
    """list of (name, parts) ; parts = [(label, bytes)]"""
    out = []
    for method in ('GET', 'POST', 'HEAD'):
        for target in ('/', '/p?x=1&y=2'):
            for version in ('1.0', '1.1'):
                for hs in ('host', 'folded', 'keepalive', 'close'):
                    bodies = ['none'] if method != 'POST' else ['none', 'cl0', 'cl5', 'ch1', 'ch2', 'chext', 'chtrail', 'chcase']
                    for body in bodies:
                        if body.startswith('ch') and version == '1.0':
                            continue
                        parts = [('request-line', ('%s %s HTTP/%s' % (method, target, version)).encode()), ('request-line-CRLF', b'\r\n')]
                        parts += [('header', b'Host: example.test'), ('header-CRLF', b'\r\n')]
                        if hs == 'folded':
                            parts += [('header', b'X-Long: first'), ('header-CRLF', b'\r\n'), ('header-continuation', b'\tsecond part'),
                                      ('header-CRLF', b'\r\n')]
                        elif hs == 'keepalive':
                            parts += [('header', b'Connection: keep-alive'), ('header-CRLF', b'\r\n')]
                        elif hs == 'close':
                            parts += [('header', b'Connection: close'), ('header-CRLF', b'\r\n')]
                        if body in ('cl0', 'cl5'):
                            n = 0 if body == 'cl0' else 5
                            parts += [('header', b'Content-Length: %d' % n), ('header-CRLF', b'\r\n')]
                        elif body.startswith('ch'):
                            # (transfer-coding names are case-insensitive: 'chcase' writes it with a capital)
                            parts += [('header', b'Transfer-Encoding: Chunked' if body == 'chcase' else b'Transfer-Encoding: chunked'), ('header-CRLF', b'\r\n')]
                        parts += [('end-of-headers-CRLF', b'\r\n')]
                        if body == 'cl5':
                            parts += [('body', b'hello')]
                        elif body in ('ch1', 'chcase'):
                            parts += [('chunk-size', b'5'), ('chunk-size-CRLF', b'\r\n'), ('chunk-data', b'hello'), ('chunk-data-CRLF', b'\r\n'),
                                      ('last-chunk', b'0'), ('last-chunk-CRLF', b'\r\n'), ('final-CRLF', b'\r\n')]
                        elif body == 'ch2':
                            parts += [('chunk-size', b'3'), ('chunk-size-CRLF', b'\r\n'), ('chunk-data', b'hel'), ('chunk-data-CRLF', b'\r\n'),
                                      ('chunk-size', b'2'), ('chunk-size-CRLF', b'\r\n'), ('chunk-data', b'lo'), ('chunk-data-CRLF', b'\r\n'),
                                      ('last-chunk', b'0'), ('last-chunk-CRLF', b'\r\n'), ('final-CRLF', b'\r\n')]
                        elif body == 'chext':
                            parts += [('chunk-size', b'5;name=val'), ('chunk-size-CRLF', b'\r\n'), ('chunk-data', b'hello'),
                                      ('chunk-data-CRLF', b'\r\n'), ('last-chunk', b'0'), ('last-chunk-CRLF', b'\r\n'), ('final-CRLF', b'\r\n')]
                        elif body == 'chtrail':
                            parts += [('chunk-size', b'5'), ('chunk-size-CRLF', b'\r\n'), ('chunk-data', b'hello'), ('chunk-data-CRLF', b'\r\n'),
                                      ('last-chunk', b'0'), ('last-chunk-CRLF', b'\r\n'), ('trailer', b'X-Trailer: t'), ('trailer-CRLF', b'\r\n'),
                                      ('final-CRLF', b'\r\n')]
                        out.append(('%s %s %s %s %s' % (method, target, version, hs, body), parts))
    return out


def response_messages():
    out = []
    for status, reason in ((200, 'OK'), (204, 'No Content'), (304, 'Not Modified'), (404, 'Not Found')):
        for framing in ('cl', 'chunked', 'close', 'cl0'):
            if status in (204, 304) and framing != 'cl':
                continue
            if framing == 'cl0' and status != 200:
                continue
            parts = [('status-line', ('HTTP/1.1 %d %s' % (status, reason)).encode()), ('status-line-CRLF', b'\r\n'),
                     ('header', b'Content-Type: text/plain'), ('header-CRLF', b'\r\n')]
            if status in (204, 304):
                parts += [('end-of-headers-CRLF', b'\r\n')]
            elif framing == 'cl0':      # an explicitly empty body
                parts += [('header', b'Content-Length: 0'), ('header-CRLF', b'\r\n'), ('end-of-headers-CRLF', b'\r\n')]
            elif framing == 'cl':
                parts += [('header', b'Content-Length: 5'), ('header-CRLF', b'\r\n'), ('end-of-headers-CRLF', b'\r\n'), ('body', b'world')]
            elif framing == 'chunked':
                parts += [('header', b'Transfer-Encoding: chunked'), ('header-CRLF', b'\r\n'), ('end-of-headers-CRLF', b'\r\n'),
                          ('chunk-size', b'3'), ('chunk-size-CRLF', b'\r\n'), ('chunk-data', b'wor'), ('chunk-data-CRLF', b'\r\n'),
                          ('chunk-size', b'2'), ('chunk-size-CRLF', b'\r\n'), ('chunk-data', b'ld'), ('chunk-data-CRLF', b'\r\n'),
                          ('last-chunk', b'0'), ('last-chunk-CRLF', b'\r\n'), ('final-CRLF', b'\r\n')]
            else:
                parts += [('end-of-headers-CRLF', b'\r\n'), ('body', b'world')]
            out.append(('%d %s' % (status, framing), parts))
    return out


def flat(parts):
    return b''.join(p[1] for p in parts)


def label_of_cut(parts, pos):
    """the structural token that the cut at byte offset pos falls into (or 'after:<token>' if between two tokens)"""
    off = 0
    for label, data in parts:
        if off < pos < off + len(data):
            return 'inside:' + label
        off += len(data)
        if pos == off:
            return 'after:' + label
    return 'end'


def boundary_positions(parts):
    pos = set()
    off = 0
    for label, data in parts:
        for d in (-1, 0, 1):
            pos.add(off + d)
        off += len(data)
    return pos


def cut_sets(parts, tier):
    n = len(flat(parts))
    yield ('single', None)
    for c in range(1, n):
        yield ('cuts', (c,))
    b = sorted(p for p in boundary_positions(parts) if 0 < p < n)
    if tier == 'quick':
        pairs = [(x, y) for x, y in itertools.combinations(b, 2) if y - x <= 3]
    else:
        pairs = list(itertools.combinations(range(1, n), 2)) if n <= 90 else list(itertools.combinations(b, 2))
    for pr in pairs:
        yield ('cuts', pr)
    yield ('bytewise', None)


def segments(data, cs):
    kind, cuts = cs
    if kind == 'single':
        return [data]
    if kind == 'bytewise':
        return [data[i:i + 1] for i in range(len(data))]
    return hh.split_at(data, cuts)


# ---- server side ------------------------------------------------------------------------------------

def run_server(msgs, segs_per_msg):
    """deliver the messages (each as its list of segments) on one connection; returns the observation"""
    w = hh.HttpWorld(controllers=(Echo(),), dispatcher=False)
    try:
        sock = w.new_sock()
        for segs in segs_per_msg:
            for s in segs:
                if sock in w.closed:
                    break
                w.feed(sock, s)
        obs = (tuple(r[1:] for r in w.requests), hh.strip_dates(w.written[sock]), sock in w.closed, tuple(w.exceptions), w.crashed)
    finally:
        w.cleanup()
    return obs


def run_server2(dA, dB, cutA, cutB, order):
    """two connections to the same HTTP component, each request cut in two reads, the four reads interleaved in `order`
    (a string over 'A','B': which connection's next segment is delivered); returns the per-connection observations"""
    w = hh.HttpWorld(controllers=(Echo(),), dispatcher=False)
    try:
        socks = {'A': w.new_sock(), 'B': w.new_sock()}
        segs = {'A': [dA[:cutA], dA[cutA:]], 'B': [dB[:cutB], dB[cutB:]]}
        for who in order:
            sock = socks[who]
            if segs[who] and sock not in w.closed:
                w.feed(sock, segs[who].pop(0))
        out = []
        for who in 'AB':
            sock = socks[who]
            out.append((tuple(r[1:] for r in w.requests if r[0] is sock), hh.strip_dates(w.written[sock]), sock in w.closed))
        out.append((tuple(w.exceptions), w.crashed))
    finally:
        w.cleanup()
    return tuple(out)


def effect(base, got):
    if got[4]:
        return 'loop-crashed'
    if len(got[0]) < len(base[0]):
        if got[1] and b' 400 ' in got[1][:20]:
            return 'answered-400'
        return 'no-request-event'
    if len(got[0]) > len(base[0]):
        return 'extra-request-event'
    if got[0] != base[0]:
        return 'different-request'
    if got[1] != base[1]:
        return 'different-response-bytes'
    if got[2] != base[2]:
        return 'different-close'
    return 'different-exceptions'


def _work_server(part, nparts, payload):
    tier, seed = payload
    core.quiet_stderr()
    st = core.Stats()
    msgs = request_messages()
    idx = -1
    for name, parts in msgs:
        idx += 1
        if idx % nparts != part:
            continue
        data = flat(parts)
        base = run_server([name], [[data]])
        st.executions += 1
        if len(base[0]) != 1 or base[3] or base[4]:
            st.selfcheck_errors.append('baseline of %r is not one clean request: %r' % (name, base))
            continue
        for cs in cut_sets(parts, tier):
            if cs[0] == 'single':
                continue
            got = run_server([name], [segments(data, cs)])
            st.executions += 1
            st.transitions += len(segments(data, cs))
            st.interesting((name, cs))
            st.outcome((name, got[0], got[1], got[2]))
            if cs[0] == 'cuts' and len(cs[1]) == 2:
                st.counters['server_two_cut_deliveries'] += 1
            if got != base:
                where = 'byte-at-a-time' if cs[0] == 'bytewise' else '+'.join(sorted({label_of_cut(parts, c) for c in cs[1]}))
                st.fail('server:%s:%s' % (where, effect(base, got)),
                        'request %r cut at %r: %d request event(s), response %r...; one piece gives %d request event(s), response %r...'
                        % (name, cs[1] if cs[0] == 'cuts' else cs[0], len(got[0]), got[1][:60], len(base[0]), base[1][:60]),
                        {'side': 'server', 'message': name, 'cuts': list(cs[1]) if cs[0] == 'cuts' else cs[0]})
        if len(st.samples) < 2:
            st.sample({'side': 'server', 'message': name, 'bytes': data.decode('latin1'), 'baseline_request': repr(base[0])[:200]})
    # keep-alive pairs: cuts in the first or in the second request
    kap = [m for m in msgs if ' 1.1 ' in m[0] and (' host ' in m[0] or ' keepalive ' in m[0]) and m[0].startswith(('GET / ', 'POST /p'))]
    pairs = list(itertools.product(kap, repeat=2))
    for pi, (m1, m2) in enumerate(pairs):
        if pi % nparts != part:
            continue
        d1, d2 = flat(m1[1]), flat(m2[1])
        base = run_server([m1[0], m2[0]], [[d1], [d2]])
        st.executions += 1
        if len(base[0]) != 2:
            st.selfcheck_errors.append('keep-alive baseline of %r + %r gave %d requests' % (m1[0], m2[0], len(base[0])))
            continue
        for which, (mm, dd) in enumerate(((m1, d1), (m2, d2))):
            for cs in cut_sets(mm[1], 'quick' if tier == 'quick' else 'quick'):
                if cs[0] == 'single' or (cs[0] == 'cuts' and len(cs[1]) == 2 and tier == 'quick'):
                    continue
                segs = [[d1], [d2]]
                segs[which] = segments(dd, cs)
                got = run_server([m1[0], m2[0]], segs)
                st.executions += 1
                st.counters['server_keepalive_deliveries'] += 1
                st.interesting((m1[0], m2[0], which, cs))
                st.outcome((m1[0], m2[0], got[0], got[1]))
                if got != base:
                    where = 'byte-at-a-time' if cs[0] == 'bytewise' else '+'.join(sorted({label_of_cut(mm[1], c) for c in cs[1]}))
                    st.fail('server:keepalive-%s:%s:%s' % ('first' if which == 0 else 'second', where, effect(base, got)),
                            'keep-alive %r then %r, request %d cut at %r: %d request event(s) vs %d' % (m1[0], m2[0], which + 1, cs[1] or cs[0], len(got[0]), len(base[0])),
                            {'side': 'server-keepalive', 'messages': [m1[0], m2[0]], 'which': which, 'cuts': list(cs[1]) if cs[0] == 'cuts' else cs[0]})
    # two connections: each request cut in two, the reads interleaved - per-connection parser state must not mix
    two = [m for m in msgs if ' 1.1 ' in m[0] and ' host ' in m[0] and (tier != 'quick' or '/p?' in m[0])]
    pi = -1
    for mA in two:
        for mB in two:
            pi += 1
            if pi % nparts != part:
                continue
            dA, dB = flat(mA[1]), flat(mB[1])
            baseA, baseB = run_server([mA[0]], [[dA]]), run_server([mB[0]], [[dB]])
            want = (baseA[:3], baseB[:3], (baseA[3], baseA[4]))
            cutsA = sorted(p for p in boundary_positions(mA[1]) if 0 < p < len(dA))[::2]
            cutsB = sorted(p for p in boundary_positions(mB[1]) if 0 < p < len(dB))[1::3]
            for ca in cutsA:
                for cb in cutsB:
                    for order in ('ABAB', 'ABBA'):
                        got = run_server2(dA, dB, ca, cb, order)
                        st.executions += 1
                        st.counters['server_two_connection_deliveries'] += 1
                        st.interesting((mA[0], mB[0], ca, cb, order))
                        st.outcome(('two', mA[0], mB[0], got[0][0], got[1][0]))
                        if got != want:
                            st.fail('server:two-connections:%s' % ('crash' if got[2][1] else 'differs'),
                                    'connections A (%r cut at %d) and B (%r cut at %d), reads in order %s: per-connection outcome %r; each alone in one piece %r'
                                    % (mA[0], ca, mB[0], cb, order, [g[0] for g in got[:2]], [b[0] for b in want[:2]]),
                                    {'side': 'server-two', 'messages': [mA[0], mB[0]], 'cuts': [ca, cb], 'order': order})
    return st


# ---- client side ------------------------------------------------------------------------------------

class RespProbe(BaseComponent):
    channel = 'cl'
    got = None

    @handler('response', priority=10)
    def _on_response(self, res):
        self.got.append((res.status, tuple(res.version) if res.version else None,
                         tuple(sorted((k.lower(), v) for k, v in res.headers.items())), res.body.getvalue()))


def run_client(segs_list):
    root = BaseComponent()
    ClientHTTP(channel='cl').register(root)
    p = RespProbe()
    p.got = []
    p.register(root)
    crashed = None
    try:
        for segs in segs_list:
            for s in segs:
                root.fire(read(s), 'cl')
                n = 0
                while len(root) and n < 50:
                    root.tick()
                    n += 1
    except BaseException as exc:  # noqa: BLE001
        crashed = repr(exc)
    return (tuple(p.got), crashed)


def _work_client(part, nparts, payload):
    tier, seed = payload
    core.quiet_stderr()
    st = core.Stats()
    msgs = response_messages()
    seqs = [(m,) for m in msgs] + [(a, b) for a in msgs for b in msgs if not a[0].endswith('close')]
    for si, seq in enumerate(seqs):
        if si % nparts != part:
            continue
        datas = [flat(m[1]) for m in seq]
        base = run_client([[d] for d in datas])
        st.executions += 1
        for which in range(len(seq)):
            for cs in cut_sets(seq[which][1], tier if len(seq) == 1 else 'quick'):
                if cs[0] == 'single':
                    continue
                segs = [[d] for d in datas]
                segs[which] = segments(datas[which], cs)
                got = run_client(segs)
                st.executions += 1
                st.counters['client_deliveries'] += 1
                st.interesting((tuple(m[0] for m in seq), which, cs))
                st.outcome(('client', tuple(m[0] for m in seq), got))
                if got != base:
                    where = 'byte-at-a-time' if cs[0] == 'bytewise' else '+'.join(sorted({label_of_cut(seq[which][1], c) for c in cs[1]}))
                    eff = 'crash' if got[1] else ('no-response-event' if len(got[0]) < len(base[0]) else (
                        'extra-response-event' if len(got[0]) > len(base[0]) else 'different-response'))
                    st.fail('client:%s:%s' % (where, eff),
                            'response(s) %r, #%d cut at %r: client delivered %r; in one piece %r'
                            % ([m[0] for m in seq], which + 1, cs[1] or cs[0], got, base),
                            {'side': 'client', 'messages': [m[0] for m in seq], 'which': which, 'cuts': list(cs[1]) if cs[0] == 'cuts' else cs[0]})
    return st


def _work(part, nparts, payload):
    st = _work_server(part, nparts, payload)
    st.merge(_work_client(part, nparts, payload))
    return st


def run(tier, seed, workers):
    st = core.parallel(_work, (tier, seed), workers, nparts=workers * 4)
    a = run_server(['x'], [[flat(request_messages()[5][1])]])
    b = run_server(['x'], [[flat(request_messages()[5][1])]])
    if a != b:
        st.selfcheck_errors.append('determinism: two deliveries of one request differ')
    st.states = len(st.outcomes)
    st.bounds = {'request_messages': len(request_messages()), 'response_messages': len(response_messages()),
                 'pairs_of_cuts': 'within 3 bytes around structural boundaries' if tier == 'quick' else 'all pairs (messages up to 90 bytes), boundary pairs otherwise'}
    for c in ('server_two_cut_deliveries', 'server_keepalive_deliveries', 'client_deliveries'):
        if not st.counters[c]:
            st.selfcheck_errors.append('vacuity: ' + c)
    return st


def _cs(c):
    return ('cuts', tuple(c)) if isinstance(c, list) else (c, None)


def replay(wj):
    reqs = dict(request_messages())
    resps = dict(response_messages())
    if wj['side'] == 'server':
        parts = reqs[wj['message']]
        data = flat(parts)
        base = run_server([wj['message']], [[data]])
        got = run_server([wj['message']], [segments(data, _cs(wj['cuts']))])
    elif wj['side'] == 'server-two':
        dA, dB = [flat(reqs[m]) for m in wj['messages']]
        bA, bB = run_server([wj['messages'][0]], [[dA]]), run_server([wj['messages'][1]], [[dB]])
        base = (bA[:3], bB[:3], (bA[3], bA[4]))
        got = run_server2(dA, dB, wj['cuts'][0], wj['cuts'][1], wj['order'])
    elif wj['side'] == 'server-keepalive':
        ds = [flat(reqs[m]) for m in wj['messages']]
        base = run_server(wj['messages'], [[d] for d in ds])
        segs = [[d] for d in ds]
        segs[wj['which']] = segments(ds[wj['which']], _cs(wj['cuts']))
        got = run_server(wj['messages'], segs)
    else:
        ds = [flat(resps[m]) for m in wj['messages']]
        base = run_client([[d] for d in ds])
        segs = [[d] for d in ds]
        segs[wj['which']] = segments(ds[wj['which']], _cs(wj['cuts']))
        got = run_client(segs)
    text = 'case %r\none piece : %r\nsegmented : %r\n' % (wj, base, got)
    text += 'identical\n' if got == base else 'VIOLATED: segmented delivery differs from one-piece delivery\n'
    return got == base, text
