"""C12 - every connection: one connect, ordered reads, one disconnect, then no trace.

Engine E1: BFS over histories of peer actions and server-side actions on up to two concurrent connections to a real
UNIXServer (and a real UNIXClient against a harness-driven listener); each history is replayed on fresh sockets under
Select, Poll and EPoll with the loop stepped deterministically (zero-time-out iterations).
"""
import os
import select
import shutil
import socket
import tempfile
import threading

import circuits.core.pollers as pollers_mod
from circuits.core.components import BaseComponent
from circuits.core.events import generate_events
from circuits.core.handlers import handler
from circuits.net.events import close, connect as connect_event, write
from circuits.net.sockets import TCPServer, UNIXClient, UNIXServer

from mc import core, e1_history

PROPERTY = 'C12'
LEVEL = 'model_checking'
RULE = ('BFS over histories of {connect, send 1 byte, send 5 bytes, send 5 / 4096 / 20480 bytes and close at once, send 8192 bytes and half-close, shutdown(WR), close, server write, server write of 1 MiB while the '
        'peer does not read, server close, and the same server-side write/close issued late, after the disconnect} over two '
        'connections to a real UNIXServer, replayed under Select, Poll and EPoll; plus client histories {peer sends, peer closes, '
        'client writes, client closes} for a real UNIXClient; plus a TCP family over a real TCPServer on the loopback interface '
        '{connect, connect-and-reset-before-accept (SO_LINGER 0), send, reset, close, server write, server close, late write/close}; state = ghost phases + kernel-visible socket state + server/poller '
        'tables; non-trivial = history in which a connection was established and ended; distinct = distinct canonical state')
ASSUMPTIONS = [
    'AF_UNIX stream sockets for the main family (abortive close = peer closes with unread data); TCP RST via SO_LINGER 0 in the TCP family, '
    'where every kernel effect is awaited explicitly (socket readable, /proc/net/tcp entry gone) before the loop is stepped',
    'a connection reset before the server accepted it may be announced (connect .. disconnect) or reported as error + disconnect without '
    'connect (the documented handling of a failed handshake); what is demanded: at most one connect, no data, a disconnect if anything was '
    'said about the socket, the socket closed and no trace in server or poller tables',
    'after every operation three zero-time-out loop iterations are made; peer effects on AF_UNIX sockets are synchronous',
    'read data must equal what the peer sent when the peer ended the connection, and be a prefix of it when the server did',
    'server and poller tables are read through getattr at quiescence (no residue clause of the statement)',
]

POLLERS = ('Select', 'Poll', 'EPoll')
TMP = None


def tmpdir():
    """per-process sub-directory of one base directory that run()/replay() create and remove"""
    global TMP
    if TMP is None:
        TMP = tempfile.mkdtemp(prefix='c12_')
    d = os.path.join(TMP, str(os.getpid()))
    if not os.path.isdir(d):
        os.makedirs(d, exist_ok=True)
    return d


class Obs(BaseComponent):
    log = None

    @handler('connect', 'read', 'disconnect', 'error', priority=50)
    def _on_ev(self, event, sock, *a):
        data = a[0] if event.name == 'read' else (tuple(a) if event.name == 'connect' else None)
        self.log.append((event.name, sock, data))

    @handler('exception', channel='*')
    def _on_exc(self, event, typ, val, tb, handler=None, fevent=None):
        self.log.append(('exception', None, '%s in %s' % (getattr(typ, '__name__', typ), getattr(fevent, 'name', None))))


class Sub:
    def __init__(self, pname, idx, tcp=False):
        self.pname = pname
        self.tcp = tcp
        self.root = BaseComponent()
        self.poller = getattr(pollers_mod, pname)().register(self.root)
        self.path = os.path.join(tmpdir(), 's%d' % idx)
        if os.path.exists(self.path):
            os.unlink(self.path)
        if tcp:
            self.server = TCPServer(('127.0.0.1', 0), channel='srv').register(self.root)
            self.port = self.server._sock.getsockname()[1]
        else:
            self.server = UNIXServer(self.path, channel='srv').register(self.root)
        self.listen_sock = getattr(self.server, '_sock', None)
        self.log = []
        obs = Obs(channel='srv')
        obs.log = self.log
        obs.register(self.root)
        self.lock = threading.RLock()
        self.peers = {}       # conn -> peer socket (harness side)
        self.socks = {}       # conn -> server-side socket object (learnt from the connect event)
        self.sent = {}        # conn -> bytes the peer has sent
        self.flush()
        self.steps(2)

    def flush(self):
        n = 0
        while len(self.root) and n < 12:
            self.root.tick()
            n += 1

    def steps(self, k=3):
        for _ in range(k):
            self.root.fire(generate_events(self.lock, 0), '*')
            self.flush()

    def close(self):
        for p in self.peers.values():
            try:
                p.close()
            except OSError:
                pass
        for s in list(getattr(self.server, '_clients', [])) + list(self.socks.values()):
            try:
                s.close()
            except OSError:
                pass
        ls = getattr(self.server, '_sock', None)
        if ls is not None:
            try:
                ls.close()
            except OSError:
                pass
        for fd in (getattr(self.poller, '_ctrl_recv', None), getattr(self.poller, '_ctrl_send', None)):
            if isinstance(fd, int):
                try:
                    os.close(fd)
                except OSError:
                    pass
        p = getattr(self.poller, '_poller', None)
        if p is not None and hasattr(p, 'close'):
            try:
                p.close()
            except Exception:  # noqa: BLE001
                pass
        try:
            os.unlink(self.path)
        except OSError:
            pass


class World:
    pass


OPS = ['connect', 'send1', 'send5', 'sendbig', 'shutwr', 'pclose', 'swrite', 'sfill', 'sclose', 'sendclose5', 'sendclose4096', 'sendshut8192',
       'sendclose20480']     # (five read buffers: more than the iterations that follow an operation can read)
EXACT = bytes(range(256)) * 16            # 4096 bytes: exactly one read buffer
BIG = bytes(range(256)) * 20 + b'tail'     # 5124 bytes: more than one read buffer


class ConnModel(e1_history.Model):
    def __init__(self, nconn, ops=OPS):
        self.nconn = nconn
        self.ops = ops

    def ghost(self, hist):
        g = {c: {'phase': 'none', 'shut': False, 'peer_open': False, 'ended': False, 'late_w': 0, 'late_c': 0, 'sclosed': False,
                 'filled': False, 'swrites': 0, 'big': False} for c in range(self.nconn)}
        for op, c in hist:
            s = g[c]
            if op == 'scloseall':
                # close() without a socket: the listening socket and every connection
                for x in g.values():
                    x['listening'] = False
                    if x['phase'] == 'open':
                        if x['ended']:
                            x['late_c'] += 1
                        x['sclosed'] = True
                        x['ended'] = True
            elif op == 'connect':
                s['phase'], s['peer_open'] = 'open', True
            elif op == 'sendbig':
                s['big'] = True
            elif op in ('sendclose5', 'sendclose4096', 'sendclose20480'):
                # the peer sends and closes before the server gets to read: data and end-of-stream are waiting together
                s['peer_open'] = False
                s['ended'] = True
            elif op == 'sendshut8192':
                s['shut'] = True
                s['ended'] = True
            elif op == 'shutwr':
                s['shut'] = True
                s['ended'] = True           # server sees EOF and closes
            elif op == 'pclose':
                s['peer_open'] = False
                s['ended'] = True
            elif op == 'sclose':
                if s['ended']:
                    s['late_c'] += 1
                s['sclosed'] = True
                s['ended'] = True
            elif op in ('swrite', 'sfill'):
                if s['ended']:
                    s['late_w'] += 1
                else:
                    s['swrites'] += 1
                if op == 'sfill':
                    s['filled'] = True
        return g

    def enabled(self, hist):
        g = self.ghost(hist)
        out = []
        for c in range(self.nconn):
            s = g[c]
            for op in self.ops:
                if op == 'connect':
                    ok = s['phase'] == 'none' and s.get('listening', True)
                elif op == 'scloseall':
                    ok = c == 0 and s.get('listening', True) and any(x['phase'] == 'open' for x in g.values())
                elif op in ('send1', 'send5'):
                    ok = s['phase'] == 'open' and s['peer_open'] and not s['shut']
                elif op == 'sendbig':
                    ok = s['phase'] == 'open' and s['peer_open'] and not s['shut'] and not s['big']
                elif op in ('sendclose5', 'sendclose4096', 'sendshut8192', 'sendclose20480'):
                    # (also after the server asked for the close: with output still buffered that close is deferred)
                    ok = s['phase'] == 'open' and s['peer_open'] and not s['shut']
                elif op == 'shutwr':
                    ok = s['phase'] == 'open' and s['peer_open'] and not s['shut'] and not s['ended']
                elif op == 'pclose':
                    ok = s['phase'] == 'open' and s['peer_open']
                elif op == 'swrite':
                    ok = s['phase'] == 'open' and (s['late_w'] < 1 if s['ended'] else s['swrites'] < 2)
                elif op == 'sfill':
                    ok = s['phase'] == 'open' and not s['filled'] and (s['late_w'] < 1 if s['ended'] else True)
                elif op == 'sclose':
                    ok = s['phase'] == 'open' and (s['late_c'] < 1 if s['ended'] else True)
                else:
                    ok = False
                if ok:
                    out.append((op, c))
        return out

    def build(self, hist):
        w = World()
        w.subs = [Sub(p, i) for i, p in enumerate(POLLERS)]
        w.selfcheck = []
        w.never_accepted = []
        for op in hist:
            for sub in w.subs:
                self.apply(sub, op, w)
        w.ghost = self.ghost(hist)
        return w

    def apply(self, sub, op, w):
        name, c = op
        if name == 'connect':
            p = socket.socket(socket.AF_UNIX, socket.SOCK_STREAM)
            p.setblocking(False)
            try:
                p.connect(sub.path)
            except BlockingIOError:
                pass
            sub.peers[c] = p
            sub.sent[c] = b''
            before = len(sub.log)
            sub.steps(3)
            for nm, sock, _d in sub.log[before:]:
                if nm == 'connect' and sock not in sub.socks.values():
                    sub.socks[c] = sock
            if c not in sub.socks:
                w.never_accepted.append('%s: the connect() of connection %d succeeded but the server announced no connect within 3 iterations' % (sub.pname, c))
            return
        p = sub.peers.get(c)
        sock = sub.socks.get(c)
        if name in ('send1', 'send5', 'sendbig'):
            data = b'x' if name == 'send1' else (b'hello' if name == 'send5' else BIG)
            try:
                p.send(data)
                sub.sent[c] += data
            except OSError:
                pass            # the server has already closed: nothing was sent
        elif name in ('sendclose5', 'sendclose4096', 'sendshut8192', 'sendclose20480'):
            data = b'hello' if name == 'sendclose5' else (EXACT if name == 'sendclose4096' else EXACT * 5 if name == 'sendclose20480' else EXACT + EXACT)
            try:
                p.send(data)
                sub.sent[c] += data
            except OSError:
                pass
            try:
                p.shutdown(socket.SHUT_WR) if name == 'sendshut8192' else p.close()
            except OSError:
                pass
        elif name == 'shutwr':
            try:
                p.shutdown(socket.SHUT_WR)
            except OSError:
                pass
        elif name == 'pclose':
            p.close()
        elif name == 'swrite':
            sub.root.fire(write(sock, b'data'), 'srv')
        elif name == 'sfill':
            sub.root.fire(write(sock, b'z' * (1 << 20)), 'srv')
        elif name == 'sclose':
            sub.root.fire(close(sock), 'srv')
        elif name == 'scloseall':
            sub.root.fire(close(), 'srv')
        sub.steps(3)

    def close(self, w):
        for s in w.subs:
            s.close()

    def check(self, hist, w, st):
        if not hist:
            return
        g = w.ghost
        bad = [('automaton:never-accepted', t) for t in w.never_accepted]
        streams = []
        for sub in w.subs:
            # everything settles (a large payload takes one iteration per read buffer), then a few more iterations in which nothing
            # may happen any more, then the tables are inspected
            for _ in range(12):
                n = len(sub.log)
                sub.steps(1)
                if len(sub.log) == n:
                    break
            before = len(sub.log)
            sub.steps(3)
            per = {}
            for nm, sock, data in sub.log:
                key = None
                for c, s in sub.socks.items():
                    if s is sock:
                        key = c
                if nm == 'exception':
                    bad.append(('exception-event', '%s: a handler raised: %s' % (sub.pname, data)))
                    continue
                if key is None:
                    if nm in ('connect',):
                        continue
                    if sock is sub.listen_sock and nm == 'disconnect' and any(o[0] == 'scloseall' for o in hist):
                        continue      # closing the listening socket is announced with a disconnect of its own; not a connection
                    bad.append(('unknown-socket', '%s: %s for a socket no connect event announced' % (sub.pname, nm)))
                    continue
                per.setdefault(key, []).append((nm, data))
            stream_obs = []
            for c in range(self.nconn):
                evs = per.get(c, [])
                s = g[c]
                names = [e[0] for e in evs if e[0] != 'error']
                if s['phase'] == 'none':
                    continue
                if s['phase'] == 'crst':
                    # the peer reset the connection before the server accepted it: the server can announce it (if it still learns the
                    # peer's address) or report an error; either way at most one connect, no data, exactly one disconnect if anything
                    # was said about the socket at all, and no trace afterwards
                    allnames = [e[0] for e in evs]
                    st.counters['connections_reset_before_accept'] += 1
                    if names not in ([], ['disconnect'], ['connect', 'disconnect']):
                        bad.append(('automaton:reset-before-accept', '%s: connection %d (reset before accept) event stream %r' % (sub.pname, c, allnames)))
                    elif names == ['disconnect'] and 'error' not in allnames[:allnames.index('disconnect')]:
                        bad.append(('automaton:reset-before-accept', '%s: connection %d: disconnect without connect or error: %r' % (sub.pname, c, allnames)))
                    elif allnames and allnames[-1] != 'disconnect':
                        bad.append(('automaton:no-disconnect', '%s: connection %d was reset before accept, the server said %r about its socket '
                                    'but never disconnect' % (sub.pname, c, allnames)))
                    sock = sub.socks.get(c)
                    if sock is not None:
                        res = residue(sub, sock)
                        if res:
                            bad.append(('residue:reset-before-accept:' + '+'.join(sorted(r[0] for r in res)),
                                        '%s: state for the socket of connection %d (reset before accept) is retained in %r' % (sub.pname, c, res)))
                        if sock.fileno() >= 0:
                            bad.append(('residue:reset-before-accept:open-socket', '%s: the socket of connection %d (reset before accept) was never closed' % (sub.pname, c)))
                    stream_obs.append((c, tuple(names), b''))
                    continue
                # automaton connect . read* . disconnect, nothing afterwards
                ok = bool(names) and names[0] == 'connect' and names.count('connect') == 1
                nd = names.count('disconnect')
                if not ok:
                    bad.append(('automaton:connect', '%s: connection %d event stream %r' % (sub.pname, c, names)))
                if nd > 1:
                    bad.append(('automaton:disconnect-twice', '%s: connection %d got %d disconnect events: %r' % (sub.pname, c, nd, names)))
                if nd >= 1 and names.index('disconnect') != len(names) - 1:
                    bad.append(('automaton:after-disconnect', '%s: connection %d: events after disconnect: %r' % (sub.pname, c, names)))
                allnames = [e[0] for e in evs]
                if 'disconnect' in allnames and allnames.index('disconnect') != len(allnames) - 1:
                    bad.append(('automaton:after-disconnect', '%s: connection %d: %r' % (sub.pname, c, allnames)))
                # a close (also the one the server does on EOF) waits for buffered data: while the peer neither reads nor
                # closes, a connection with a filled server-side buffer legitimately stays half-open
                need = (not s['peer_open']) or (s['ended'] and not s['filled'])
                if need and nd == 0:
                    bad.append(('automaton:no-disconnect', '%s: connection %d ended (%r) but no disconnect event after 6 iterations: %r'
                                % (sub.pname, c, [o for o in hist if o[1] == c], names)))
                if not s['ended'] and nd:
                    bad.append(('automaton:spurious-disconnect', '%s: connection %d is open on both sides but got disconnect: %r' % (sub.pname, c, names)))
                data = b''.join(e[1] for e in evs if e[0] == 'read')
                for e in evs:
                    if e[0] == 'connect' and getattr(sub, 'peer_addr', {}).get(c) is not None and tuple(e[1][:2]) != tuple(sub.peer_addr[c][:2]):
                        bad.append(('connect-args', '%s: connect event of connection %d names peer %r, the peer is %r' % (sub.pname, c, e[1], sub.peer_addr[c])))
                sent = sub.sent.get(c, b'')
                if s['sclosed'] or s.get('reset'):
                    if not sent.startswith(data):
                        bad.append(('data:not-prefix', '%s: connection %d read %r, peer sent %r' % (sub.pname, c, data, sent)))
                elif s['ended'] or True:
                    if data != sent:
                        bad.append(('data:mismatch', '%s: connection %d read %r, peer sent %r' % (sub.pname, c, data, sent)))
                stream_obs.append((c, tuple(names), data))
                # no trace after the disconnect
                if nd:
                    sock = sub.socks[c]
                    res = residue(sub, sock)
                    if res:
                        kind = 'late-write' if s['late_w'] else ('late-close' if s['late_c'] else 'plain')
                        bad.append(('residue:%s:%s' % (kind, '+'.join(sorted(r[0] for r in res))),
                                    '%s: after the disconnect of connection %d state is retained in %r' % (sub.pname, c, res)))
            # the poller watches nothing but the listening socket and connections that have not been disconnected yet
            live = [sub.socks[c] for c in sub.socks if 'disconnect' not in [e[0] for e in per.get(c, [])]]
            for attr in ('_read', '_write'):
                for x in list(getattr(sub.poller, attr, []) or []):
                    if isinstance(x, int) or (x is sub.listen_sock and getattr(sub.server, '_sock', None) is x) or any(x is y for y in live):
                        continue
                    if any(x is y for y in sub.socks.values()):
                        continue      # (a disconnected connection's socket: reported by the residue clause above)
                    bad.append(('residue:stray-poller-entry', '%s: the poller still watches (%s) a socket that belongs to no announced, '
                                'live connection: %r' % (sub.pname, attr, x)))
            if len(sub.log) != before and all(g[c]['ended'] or g[c]['phase'] == 'none' for c in range(self.nconn)):
                extra = [(n, d) for n, s_, d in sub.log[before:]]
                bad.append(('not-quiescent', '%s: events still fired after everything had ended: %r' % (sub.pname, extra)))
            streams.append(tuple(stream_obs))
        if len(set(streams)) > 1:
            bad.append(('cross-poller', 'observer streams differ between pollers: %r' % (dict(zip(POLLERS, streams)),)))
        st.executions += 3
        ended = any(g[c]['ended'] for c in g)
        if ended:
            st.interesting(('hist', hist))
            st.counters['histories_with_an_ended_connection'] += 1
        if any(g[c]['late_w'] or g[c]['late_c'] for c in g):
            st.counters['histories_with_late_write_or_close'] += 1
        st.outcome((tuple(hist), streams[0] if streams else None))
        for e in w.selfcheck:
            st.selfcheck_errors.append('%s [history %r]' % (e, list(hist)))
        seen = set()
        for kind, text in bad:
            if (kind, text) in seen:
                continue
            seen.add((kind, text))
            st.fail(kind, '%s  [%shistory %r]' % (text, 'TCP ' if isinstance(self, TcpModel) else '', list(hist)),
                    {'nconn': self.nconn, 'ops': self.ops, 'hist': [list(o) for o in hist], 'tcp': isinstance(self, TcpModel)})
        if len(hist) == 3 and len(st.samples) < 2:
            st.sample({'hist': [list(o) for o in hist], 'streams': repr(streams[0])})

    def canon(self, w):
        g = w.ghost
        out = []
        for sub in w.subs:
            srv = sub.server
            clients = getattr(srv, '_clients', None)
            buffers = getattr(srv, '_buffers', None)
            closeq = getattr(srv, '_closeq', None)
            if clients is None or buffers is None or closeq is None:
                return None
            lab = {id(s): c for c, s in sub.socks.items()}
            t = (tuple(sorted(lab.get(id(s), -1) for s in clients)),
                 tuple(sorted((lab.get(id(s), -1), sum(len(x) for x in q) > 0) for s, q in buffers.items())),
                 tuple(sorted(lab.get(id(s), -1) for s in closeq)))
            po = sub.poller
            pt = []
            for attr in ('_read', '_write'):
                lst = getattr(po, attr, None)
                if lst is None:
                    return None
                pt.append(tuple(sorted(lab.get(id(x), -2) for x in lst if not isinstance(x, int))))
            ks = []
            for c in range(self.nconn):
                p = sub.peers.get(c)
                if p is None or p.fileno() < 0:
                    ks.append(None)
                else:
                    r, wr, _ = select.select([p], [p], [], 0)
                    ks.append((bool(r), bool(wr)))
            names = tuple(tuple(n for n, s, d in sub.log if s is sub.socks.get(c)) for c in range(self.nconn))
            out.append((t, tuple(pt), tuple(ks), names))
        gs = tuple(tuple(sorted(g[c].items())) for c in range(self.nconn))
        sent = tuple(w.subs[0].sent.get(c) for c in range(self.nconn))
        return (gs, sent, tuple(out))


# ---- TCP family: abortive closes (RST through SO_LINGER 0), also before the server has accepted the connection ------------

TCP_OPS = ['connect', 'crst', 'send5', 'rst', 'pclose', 'swrite', 'sclose']


def tcp_state(lport, rport):
    """state column of /proc/net/tcp for the server-side end of a loopback connection (None: no such socket any more)"""
    try:
        lines = open('/proc/net/tcp').read().splitlines()[1:]
    except OSError:
        return 'unreadable'
    for line in lines:
        f = line.split()
        if int(f[1].split(':')[1], 16) == lport and int(f[2].split(':')[1], 16) == rport:
            return f[3]
    return None


def wait_until(pred, what, w, timeout=2.0):
    import time
    end = time.time() + timeout
    while time.time() < end:
        if pred():
            return True
        time.sleep(0.0005)
    w.selfcheck.append('kernel effect not observed within %.1f s: %s' % (timeout, what))
    return False


def readable(sock):
    try:
        return sock.fileno() < 0 or bool(select.select([sock], [], [], 0)[0])
    except (OSError, ValueError):
        return True


class TcpModel(ConnModel):
    """Same automaton over a real TCPServer on the loopback interface.  Peer effects are awaited explicitly (listening socket /
    server-side socket readable, embryonic connection gone from /proc/net/tcp) before the loop is stepped, so every history
    is deterministic."""

    def __init__(self, nconn, ops=TCP_OPS):
        ConnModel.__init__(self, nconn, ops)

    def ghost(self, hist):
        g = {c: {'phase': 'none', 'shut': False, 'peer_open': False, 'ended': False, 'late_w': 0, 'late_c': 0, 'sclosed': False,
                 'filled': False, 'swrites': 0, 'big': False, 'reset': False} for c in range(self.nconn)}
        for op, c in hist:
            s = g[c]
            if op == 'connect':
                s['phase'], s['peer_open'] = 'open', True
            elif op == 'crst':
                s['phase'], s['peer_open'], s['ended'], s['reset'] = 'crst', False, True, True
            elif op == 'rst':
                s['peer_open'], s['ended'], s['reset'] = False, True, True
            elif op == 'pclose':
                s['peer_open'] = False
                s['ended'] = True
            elif op == 'sclose':
                if s['ended']:
                    s['late_c'] += 1
                s['sclosed'] = True
                s['ended'] = True
            elif op == 'swrite':
                if s['ended']:
                    s['late_w'] += 1
                else:
                    s['swrites'] += 1
        return g

    def enabled(self, hist):
        g = self.ghost(hist)
        out = []
        for c in range(self.nconn):
            s = g[c]
            for op in self.ops:
                if op in ('connect', 'crst'):
                    ok = s['phase'] == 'none'
                elif op == 'send5':
                    ok = s['phase'] == 'open' and s['peer_open']
                elif op in ('pclose', 'rst'):
                    ok = s['phase'] == 'open' and s['peer_open']
                elif op == 'swrite':
                    ok = s['phase'] in ('open', 'crst') and (s['late_w'] < 1 if s['ended'] else s['swrites'] < 2)
                elif op == 'sclose':
                    ok = s['phase'] in ('open', 'crst') and (s['late_c'] < 1 if s['ended'] else True)
                else:
                    ok = False
                if ok:
                    out.append((op, c))
        return out

    def build(self, hist):
        w = World()
        w.selfcheck = []
        w.never_accepted = []
        w.subs = [Sub(p, i, tcp=True) for i, p in enumerate(POLLERS)]
        for op in hist:
            for sub in w.subs:
                self.apply(sub, op, w)
        w.ghost = self.ghost(hist)
        return w

    def apply(self, sub, op, w):
        import struct
        name, c = op
        ls = sub.server._sock
        if name in ('connect', 'crst'):
            p = socket.socket(socket.AF_INET, socket.SOCK_STREAM)
            p.settimeout(2.0)
            p.connect(('127.0.0.1', sub.port))
            pport = p.getsockname()[1]
            if not hasattr(sub, 'peer_addr'):
                sub.peer_addr = {}
            sub.peer_addr[c] = p.getsockname()
            sub.peers[c] = p
            sub.sent[c] = b''
            wait_until(lambda: readable(ls), 'listening socket readable after connect()', w)
            if name == 'crst':
                # abortive close before the server loop gets to accept(): accept() still succeeds, getpeername() fails
                p.setsockopt(socket.SOL_SOCKET, socket.SO_LINGER, struct.pack('ii', 1, 0))
                p.close()
                wait_until(lambda: tcp_state(sub.port, pport) in (None, '07'), 'embryonic connection reset', w)
            else:
                p.setblocking(False)
            before = len(sub.log)
            sub.steps(3)
            for nm, sock, _d in sub.log[before:]:
                if sock is not None and nm in ('connect', 'error', 'disconnect', 'read') and not any(sock is x for x in sub.socks.values()):
                    sub.socks.setdefault(c, sock)
            if name == 'connect' and c not in sub.socks:
                w.never_accepted.append('%s: the connect() of connection %d succeeded but the server announced no connect within 3 iterations' % (sub.pname, c))
            return
        p = sub.peers.get(c)
        sock = sub.socks.get(c)
        if name == 'send5':
            try:
                p.send(b'hello')
                sub.sent[c] += b'hello'
                if sock is not None:
                    wait_until(lambda: readable(sock), 'server-side socket readable after send()', w)
            except OSError:
                pass
        elif name == 'pclose':
            p.close()
            if sock is not None:
                wait_until(lambda: readable(sock), 'server-side socket readable after close()', w)
        elif name == 'rst':
            p.setsockopt(socket.SOL_SOCKET, socket.SO_LINGER, struct.pack('ii', 1, 0))
            p.close()
            if sock is not None:
                wait_until(lambda: readable(sock), 'server-side socket readable after reset', w)
        elif name == 'swrite':
            if sock is not None:
                sub.root.fire(write(sock, b'data'), 'srv')
        elif name == 'sclose':
            if sock is not None:
                sub.root.fire(close(sock), 'srv')
        sub.steps(3)


def cleanup_tmp():
    global TMP
    if TMP and os.path.isdir(TMP):
        shutil.rmtree(TMP, ignore_errors=True)
    TMP = None


def residue(sub, sock):
    res = []
    srv = sub.server
    for attr in ('_clients', '_closeq'):
        lst = getattr(srv, attr, None)
        if lst is not None and sock in lst:
            res.append((attr, 'server'))
    buf = getattr(srv, '_buffers', None)
    if buf is not None and sock in buf:
        res.append(('_buffers', 'server'))
    po = sub.poller
    for attr in ('_read', '_write'):
        lst = getattr(po, attr, None)
        if lst is not None and sock in lst:
            res.append((attr, sub.pname))
    tg = getattr(po, '_targets', None)
    if tg is not None and sock in tg:
        res.append(('_targets', sub.pname))
    mp = getattr(po, '_map', None)
    if mp is not None and any(v is sock for v in mp.values()):
        res.append(('_map', sub.pname))
    return res


# ---- client side -----------------------------------------------------------------------------------

class CObs(BaseComponent):
    log = None

    @handler('connected', 'disconnected', 'read', 'error', priority=50)
    def _on_ev(self, event, *a):
        self.log.append((event.name, a[0] if event.name == 'read' else None))


CLIENT_OPS = ['psend', 'pclose', 'cwrite', 'cclose']


class ClientModel(e1_history.Model):
    def enabled(self, hist):
        names = [o[0] for o in hist]
        out = []
        peer_open = 'pclose' not in names
        closed = 'cclose' in names
        if peer_open and names.count('psend') < 2:
            out.append(('psend', 0))
        if peer_open:
            out.append(('pclose', 0))
        if names.count('cwrite') < 2:
            out.append(('cwrite', 0))
        if names.count('cclose') < 2:
            out.append(('cclose', 0))
        return out

    def build(self, hist):
        w = World()
        w.subs = []
        w.selfcheck = []
        for i, pname in enumerate(POLLERS):
            sub = World()
            sub.pname = pname
            sub.root = BaseComponent()
            sub.poller = getattr(pollers_mod, pname)().register(sub.root)
            sub.path = os.path.join(tmpdir(), 'c%d' % i)
            if os.path.exists(sub.path):
                os.unlink(sub.path)
            sub.listener = socket.socket(socket.AF_UNIX, socket.SOCK_STREAM)
            sub.listener.bind(sub.path)
            sub.listener.listen(5)
            sub.listener.setblocking(False)
            sub.client = UNIXClient(channel='cl').register(sub.root)
            sub.log = []
            obs = CObs(channel='cl')
            obs.log = sub.log
            obs.register(sub.root)
            sub.lock = threading.RLock()
            sub.steps = lambda k=3, sub=sub: self._steps(sub, k)
            sub.steps(2)
            sub.root.fire(connect_event(sub.path), 'cl')
            sub.steps(3)
            try:
                sub.peer, _ = sub.listener.accept()
                sub.peer.setblocking(False)
            except OSError as e:
                w.selfcheck.append('%s: client did not connect: %r' % (pname, e))
                sub.peer = None
            sub.sent = b''
            w.subs.append(sub)
        for op in hist:
            for sub in w.subs:
                self.apply(sub, op)
        return w

    @staticmethod
    def _steps(sub, k):
        for _ in range(k):
            sub.root.fire(generate_events(sub.lock, 0), '*')
            n = 0
            while len(sub.root) and n < 12:
                sub.root.tick()
                n += 1

    def apply(self, sub, op):
        name = op[0]
        if sub.peer is None:
            return
        if name == 'psend':
            try:
                sub.peer.send(b'hey')
                sub.sent += b'hey'
            except OSError:
                pass
        elif name == 'pclose':
            sub.peer.close()
        elif name == 'cwrite':
            sub.root.fire(write(b'out'), 'cl')
        elif name == 'cclose':
            sub.root.fire(close(), 'cl')
        sub.steps(3)

    def close(self, w):
        for sub in w.subs:
            for x in (sub.peer, sub.listener, getattr(sub.client, '_sock', None)):
                try:
                    if x is not None:
                        x.close()
                except OSError:
                    pass
            for fd in (getattr(sub.poller, '_ctrl_recv', None), getattr(sub.poller, '_ctrl_send', None)):
                if isinstance(fd, int):
                    try:
                        os.close(fd)
                    except OSError:
                        pass
            p = getattr(sub.poller, '_poller', None)
            if p is not None and hasattr(p, 'close'):
                try:
                    p.close()
                except Exception:  # noqa: BLE001
                    pass
            try:
                os.unlink(sub.path)
            except OSError:
                pass

    def check(self, hist, w, st):
        names = [o[0] for o in hist]
        ended = 'pclose' in names or 'cclose' in names
        bad = []
        streams = []
        for sub in w.subs:
            sub.steps(3)
            evs = [e[0] for e in sub.log if e[0] != 'error']
            nc, nd = evs.count('connected'), evs.count('disconnected')
            if nc != 1:
                bad.append(('client:connected-count', '%s: %d connected events: %r' % (sub.pname, nc, evs)))
            if nd > 1:
                bad.append(('client:disconnected-twice', '%s: %d disconnected events for one connection: %r' % (sub.pname, nd, evs)))
            if ended and nd == 0:
                bad.append(('client:no-disconnected', '%s: the connection ended (%r) but no disconnected event: %r' % (sub.pname, names, evs)))
            if not ended and nd:
                bad.append(('client:spurious-disconnected', '%s: %r' % (sub.pname, evs)))
            if nd and evs.index('disconnected') != len(evs) - 1:
                bad.append(('client:after-disconnected', '%s: events after disconnected: %r' % (sub.pname, evs)))
            data = b''.join(e[1] for e in sub.log if e[0] == 'read')
            if 'cclose' not in names and data != sub.sent:
                bad.append(('client:data', '%s: client read %r, peer sent %r' % (sub.pname, data, sub.sent)))
            if 'cclose' in names and not sub.sent.startswith(data):
                bad.append(('client:data', '%s: client read %r, peer sent %r' % (sub.pname, data, sub.sent)))
            if nd:
                po = sub.poller
                cs = getattr(sub.client, '_sock', None)
                left = [a for a in ('_read', '_write') if cs is not None and cs in getattr(po, a, [])]
                if left:
                    bad.append(('client:residue', '%s: poller still has the client socket in %r after disconnected' % (sub.pname, left)))
            streams.append((tuple(evs), data))
        if len(set(streams)) > 1:
            bad.append(('client:cross-poller', 'client event streams differ: %r' % (dict(zip(POLLERS, streams)),)))
        st.executions += 3
        st.counters['client_histories'] += 1
        st.outcome(('client', tuple(hist), streams[0]))
        for e in w.selfcheck:
            st.selfcheck_errors.append(e)
        for kind, text in set(bad):
            st.fail(kind, '%s  [client history %r]' % (text, list(hist)), {'client': True, 'hist': [list(o) for o in hist]})

    def canon(self, w):
        return None


def run(tier, seed, workers):
    total = core.Stats()
    plan = [(1, OPS, 5), (2, ['connect', 'sendbig', 'pclose', 'swrite', 'sclose', 'scloseall'], 5)] if tier == 'quick' else \
        [(1, OPS + ['scloseall'], 8), (2, OPS + ['scloseall'], 6), (3, ['connect', 'send5', 'pclose', 'sfill', 'scloseall'], 5)]
    states = 0
    tmpdir()
    try:
        for nconn, ops, depth in plan:
            st = e1_history.bfs(ConnModel(nconn, ops), depth, workers, seed, max_states=200000)
            st.bounds = {'server_conns%d_ops%d' % (nconn, len(ops)): dict(st.bounds)}
            states += st.states
            total.merge(st)
        for nconn, depth in ([(1, 4), (2, 3)] if tier == 'quick' else [(1, 6), (2, 5)]):
            st = e1_history.bfs(TcpModel(nconn), depth, workers, seed, max_states=200000)
            st.bounds = {'tcp_server_conns%d_ops%d' % (nconn, len(TCP_OPS)): dict(st.bounds)}
            states += st.states
            total.merge(st)
        # many connections at once (one long history each, not a search): every connection keeps its own automaton
        for n in ((24,) if tier == 'quick' else (24, 70, 140)):
            model = ConnModel(n, OPS + ['scloseall'])
            for variant in ('peers-close-first', 'server-closes-all'):
                hist = [('connect', c) for c in range(n)] + [('send5', c) for c in range(n)] + [('swrite', c) for c in range(0, n, 3)]
                if variant == 'peers-close-first':
                    hist += [('pclose', c) for c in range(0, n, 2)] + [('sclose', c) for c in range(1, n, 2)]
                else:
                    hist += [('pclose', c) for c in range(0, n, 5)] + [('scloseall', 0)]
                hist = tuple(hist)
                w = model.build(hist)
                sst = core.Stats()
                try:
                    model.check(hist, w, sst)
                finally:
                    model.close(w)
                sst.counters['many_connection_histories'] += 1
                sst.samples = []
                total.merge(sst)
        st = e1_history.bfs(ClientModel(), 4 if tier == 'quick' else 6, workers, seed)
        st.bounds = {'client': dict(st.bounds)}
        states += st.states
        total.merge(st)
    finally:
        cleanup_tmp()
    total.states = states
    for c in ('histories_with_an_ended_connection', 'histories_with_late_write_or_close', 'client_histories', 'connections_reset_before_accept'):
        if not total.counters[c]:
            total.selfcheck_errors.append('vacuity: ' + c)
    return total


def replay(wj):
    hist = tuple(tuple(o) for o in wj['hist'])
    model = ClientModel() if wj.get('client') else (TcpModel(wj['nconn'], wj['ops']) if wj.get('tcp') else ConnModel(wj['nconn'], wj['ops']))
    w = model.build(hist)
    st = core.Stats()
    try:
        model.check(hist, w, st)
    finally:
        model.close(w)
        cleanup_tmp()
    text = 'history %r\n' % (list(hist),)
    for sig, fl in st.failures.items():
        for f in fl:
            text += 'VIOLATED %s: %s\n' % (sig, f.message)
    if not st.failures:
        text += 'all clauses hold under the three pollers\n'
    return (not st.failures), text
