"""C10 - pollers report exactly the registered-and-ready descriptors; all three agree.

Engine E1: BFS over histories of registration operations and peer actions on real AF_UNIX socket pairs; every history
is replayed on fresh sockets under Select, Poll and EPoll; after every operation two zero-time-out loop iterations are
performed and the fired _read/_write/_disconnect events are compared with a set model and across the pollers.
"""
import errno
import select
import socket
import threading

import circuits.core.pollers as pollers_mod
from circuits.core.components import BaseComponent
from circuits.core.events import generate_events
from circuits.core.handlers import handler

from mc import core, e1_history

PROPERTY = 'C10'
LEVEL = 'model_checking'
RULE = ('BFS over histories of {addReader, addWriter, removeReader, removeWriter, discard, peer write, drain, fill send buffer, '
        'unfill, peer close, add reader/writer by a second component, discard+close+reopen (same fd number), close-without-discard+reopen+register} on 1-2 real socket pairs; '
        'also with the descriptors handed over as plain numbers (close without discard, loop iterations, then the number given to a descriptor nobody registered); each history replayed under Select, Poll and EPoll; state = set-model roles x measured kernel readiness x poller tables; '
        'non-trivial = state in which some descriptor is registered for a role and ready for it; distinct = distinct canonical state')
ASSUMPTIONS = [
    'set model: add* is idempotent, one remove*/discard ends the registration (the statement quantifies over every sequence)',
    'the per-descriptor target is a single channel by design (the latest add* decides): with two components registering the same '
    'descriptor the channel of an event is judged whenever every role registered now was last added by the latest registrant',
    'events for hung-up descriptors (peer closed) are judged only for V1/V4 (readiness event or _disconnect are both documented)',
    'V2 (ready => event) is judged on the second of two loop iterations after each operation (steady state)',
    'Linux AF_UNIX semantics; lowest-free-fd allocation makes fd reuse deterministic (asserted)',
]

POLLERS = ('Select', 'Poll', 'EPoll')


class Probe(BaseComponent):
    log = None

    @handler('_read', '_write', '_disconnect', '_error')
    def _on_io(self, event, sock, *a):
        self.log.append((event.name, sock, self.channel))


class Side:
    """one socket pair: `s` is the end handed to the poller, `peer` is driven by the harness"""

    def __init__(self):
        self.s, self.peer = socket.socketpair(socket.AF_UNIX, socket.SOCK_STREAM)
        self.s.setblocking(False)
        self.peer.setblocking(False)
        self.peer_open = True
        self.gen = 0
        self.filled = False


def kernel(s):
    if s.fileno() < 0:
        return (False, False, True)
    p = select.poll()           # (poll, not select: descriptor numbers above FD_SETSIZE occur in the many-descriptor history)
    p.register(s, select.POLLIN | select.POLLOUT)
    ev = p.poll(0)
    mask = ev[0][1] if ev else 0
    hup = bool(mask & (select.POLLHUP | select.POLLERR))
    return (bool(mask & (select.POLLIN | select.POLLHUP)), bool(mask & select.POLLOUT), hup)


class Sub:
    """the world under one poller"""

    def __init__(self, pname, nsock):
        self.pname = pname
        self.root = BaseComponent()
        self.poller = getattr(pollers_mod, pname)().register(self.root)
        self.log = []
        self.owners = []
        for i, ch in enumerate((('p', 'q') + tuple('r%d' % k for k in range(nsock)))[:nsock]):
            pr = Probe(channel=ch)
            pr.log = self.log
            pr.register(self.root)
            self.owners.append(pr)
        self.second = Probe(channel='zb')      # a second component that may register the same descriptors
        self.second.log = self.log
        self.second.register(self.root)
        self.sides = [Side() for _ in range(nsock)]
        self.lock = threading.RLock()
        self.dead = []          # sockets that were discarded/closed: must never be named again
        self.flush()

    def flush(self):
        n = 0
        while len(self.root) and n < 10:
            self.root.flush()
            n += 1

    def iteration(self):
        start = len(self.log)
        self.root.fire(generate_events(self.lock, 0), '*')
        self.flush()
        return self.log[start:]

    def close(self):
        for sd in self.sides:
            for x in (sd.s, sd.peer):
                try:
                    x.close()
                except OSError:
                    pass
        for x in self.dead:
            try:
                x.close()
            except OSError:
                pass
        import os
        for fd in getattr(self, 'aliens', []):
            try:
                os.close(fd)
            except OSError:
                pass
        for fd in (getattr(self.poller, '_ctrl_recv', None), getattr(self.poller, '_ctrl_send', None)):
            if isinstance(fd, int):
                try:
                    os.close(fd)
                except OSError:
                    pass
        p = getattr(self.poller, '_poller', None)
        if p is not None and hasattr(p, 'close'):
            try:
                p.close()
            except Exception:  # noqa: BLE001
                pass


class World:
    pass


class PollModel(e1_history.Model):
    def __init__(self, nsock, ops, as_int=False):
        self.nsock = nsock
        self.opnames = ops
        self.as_int = as_int       # descriptors are handed to the poller as plain numbers (as circuits.io.File and Notify do)

    # ghost: roles[i] = set of 'r','w'; kernel facts are measured
    def enabled(self, hist):
        g = self.ghost(hist)
        out = []
        for i in range(self.nsock):
            for op in self.opnames:
                if op == 'take':
                    # (after `cx` and the loop iterations that follow every operation: the poller has had its chance to notice)
                    if g['gone'][i] and not g['taken'][i]:
                        out.append((op, i))
                    continue
                if g['gone'][i]:
                    continue
                if op == 'peer_write' and not (g['peer_open'][i] and not g['peer_full'][i]):
                    continue
                if op == 'drain' and not g['has_data'][i]:
                    continue
                if op == 'fill' and (g['filled'][i] or not g['peer_open'][i]):
                    continue
                if op == 'unfill' and not (g['filled'][i] and g['peer_open'][i]):
                    continue
                if op == 'peer_close' and not g['peer_open'][i]:
                    continue
                if op in ('removeReader',) and 'r' not in g['roles'][i] and g['removed_once'][i] >= 1:
                    continue    # one redundant remove is enough
                if op in ('removeWriter',) and 'w' not in g['roles'][i] and g['removed_once'][i] >= 1:
                    continue
                if op in ('dcr', 'ccr', 'ccx') and g['gen'][i] >= 1:
                    continue    # one reuse per socket
                if op in ('ldisc', 'lremr') and not (g['closed_undiscarded'][i] and g['late'][i] < 1):
                    continue    # late discard/remove of the object that was closed without discard
                out.append((op, i))
        return out

    def ghost(self, hist):
        n = self.nsock
        g = {'roles': [set() for _ in range(n)], 'peer_open': [True] * n, 'has_data': [False] * n, 'filled': [False] * n,
             'gen': [0] * n, 'removed_once': [0] * n, 'peer_full': [False] * n, 'gone': [False] * n, 'closed_undiscarded': [False] * n, 'late': [0] * n,
             'taken': [False] * n}
        g['adder'] = [dict() for _ in range(n)]      # role -> 'A' | 'B', the component whose add* came last for that role
        g['last'] = [None] * n                        # the component whose add* (any role) came last for the descriptor
        for op, i in hist:
            if op in ('addReader', 'addReaderB'):
                g['roles'][i].add('r')
                g['adder'][i]['r'] = g['last'][i] = 'B' if op.endswith('B') else 'A'
            elif op in ('addWriter', 'addWriterB'):
                g['roles'][i].add('w')
                g['adder'][i]['w'] = g['last'][i] = 'B' if op.endswith('B') else 'A'
            elif op == 'removeReader':
                if 'r' not in g['roles'][i]:
                    g['removed_once'][i] += 1
                g['roles'][i].discard('r')
            elif op == 'removeWriter':
                if 'w' not in g['roles'][i]:
                    g['removed_once'][i] += 1
                g['roles'][i].discard('w')
            elif op == 'discard':
                g['roles'][i].clear()
            elif op == 'peer_write':
                g['has_data'][i] = True
            elif op == 'drain':
                g['has_data'][i] = False
            elif op == 'fill':
                g['filled'][i] = True
            elif op == 'unfill':
                g['filled'][i] = False
            elif op == 'peer_close':
                g['peer_open'][i] = False
            elif op == 'dcr':
                g['roles'][i].clear()
                g['gen'][i] += 1
                g['peer_open'][i], g['has_data'][i], g['filled'][i] = True, False, False
            elif op == 'ccx':
                g['roles'][i].clear()
                g['gen'][i] += 1
                g['gone'][i] = True
                g['peer_open'][i], g['has_data'][i], g['filled'][i] = False, False, False
            elif op in ('ldisc', 'lremr'):
                g['late'][i] += 1
            elif op == 'cx':
                g['roles'][i].clear()
                g['gone'][i] = True
                g['peer_open'][i], g['has_data'][i], g['filled'][i] = False, False, False
            elif op == 'take':
                g['taken'][i] = True
            elif op == 'ccr':
                g['closed_undiscarded'][i] = True
                g['roles'][i] = {'r'}
                g['adder'][i] = {'r': 'A'}
                g['last'][i] = 'A'
                g['gen'][i] += 1
                g['peer_open'][i], g['has_data'][i], g['filled'][i] = True, False, False
        return g

    def build(self, hist):
        w = World()
        w.subs = [Sub(p, self.nsock) for p in POLLERS]
        w.bad = []
        w.selfcheck = []
        w.last_iter = None
        for op in hist:
            w.last_iter = [self.apply(s, op, w) for s in w.subs]
        w.ghost = self.ghost(hist)
        return w

    def apply(self, sub, op, w):
        name, i = op
        sd = sub.sides[i]
        po = sub.poller
        owner = sub.owners[i]
        key = sd.s
        if self.as_int:
            if not hasattr(sd, 'number'):
                sd.number = sd.s.fileno()      # the number the application knows the descriptor by (it does not learn of a take-over)
            key = sd.number
        if name == 'addReader':
            po.addReader(owner, key)
        elif name == 'addWriter':
            po.addWriter(owner, key)
        elif name == 'addReaderB':
            po.addReader(sub.second, key)
        elif name == 'addWriterB':
            po.addWriter(sub.second, key)
        elif name == 'removeReader':
            po.removeReader(key)
        elif name == 'removeWriter':
            po.removeWriter(key)
        elif name == 'discard':
            po.discard(key)
        elif name == 'peer_write':
            sd.peer.send(b'a')
        elif name == 'drain':
            try:
                sd.s.recv(1 << 20)
            except OSError:
                pass
        elif name == 'fill':
            try:
                while True:
                    sd.s.send(b'x' * 65536)
            except OSError as e:
                if e.errno not in (errno.EAGAIN, errno.EWOULDBLOCK):
                    w.selfcheck.append('fill: %r' % (e,))
        elif name == 'unfill':
            try:
                while True:
                    if not sd.peer.recv(1 << 20):
                        break
            except OSError:
                pass
        elif name == 'peer_close':
            sd.peer.close()
        elif name in ('ldisc', 'lremr'):
            # the application tidies up late: the socket object it closed earlier (number reused meanwhile)
            dead = [d for (j, d) in getattr(sub, 'dead_side', []) if j == i]
            if dead:
                try:
                    (po.discard if name == 'ldisc' else po.removeReader)(dead[-1])
                except (ValueError, OSError):
                    pass    # the call itself may refuse a closed object; what the poller reports afterwards is judged
        elif name == 'cx':
            # closed WITHOUT discard (the application forgot to tell the poller); the number is free now
            if self.as_int and not hasattr(sd, 'number'):
                sd.number = sd.s.fileno()
            sub.dead.append(sd.s)
            sd.s.close()
            sd.peer.close()
        elif name == 'take':
            # ... and later the number is given to a descriptor the poller was never told about (readable and writable)
            import os
            a, b = socket.socketpair()
            b.send(b'z')
            no = getattr(sd, 'number', None)
            if no is not None and a.fileno() != no:
                os.dup2(a.fileno(), no)
                a.close()
                sub.aliens = getattr(sub, 'aliens', []) + [no]
            else:
                sub.aliens = getattr(sub, 'aliens', []) + [a.detach()]
            sub.aliens.append(b.detach())
        elif name == 'ccx':
            # closed WITHOUT discard; its number is taken over by a descriptor the poller was never told about
            import os
            oldno = sd.s.fileno()
            old = sd.s
            old.close()
            sd.peer.close()
            sub.dead.append(old)
            r, wr = os.pipe()
            if wr != oldno:
                os.dup2(wr, oldno)
                os.close(wr)
            sub.aliens = getattr(sub, 'aliens', []) + [r, oldno]
        elif name in ('dcr', 'ccr'):
            oldno = sd.s.fileno()
            old = sd.s
            if name == 'dcr':
                po.discard(old)
            peerno = sd.peer.fileno()
            old.close()
            try:
                sd.peer.close()
            except OSError:
                pass
            sub.dead_side = getattr(sub, 'dead_side', []) + [(i, old)]
            sub.dead.append(old)
            new = Side()
            if new.peer.fileno() == oldno:
                new.s, new.peer = new.peer, new.s       # the two ends of a socketpair are symmetric
            if new.s.fileno() != oldno:
                # force the new descriptor onto the old number (what lowest-free-fd allocation does when nothing lower is free)
                import os
                a = new.s
                os.dup2(a.fileno(), oldno)
                new.s = socket.socket(a.family, a.type, a.proto, fileno=oldno)
                new.s.setblocking(False)
                a.close()
            if new.s.fileno() != oldno:
                w.selfcheck.append('fd number not reused: %d -> %d (peer %d)' % (oldno, new.s.fileno(), peerno))
            sub.sides[i] = new
            new.gen = sd.gen + 1
            if name == 'ccr':
                po.addReader(owner, new.s)
        it1 = sub.iteration()
        it2 = sub.iteration()
        return (it1, it2)

    def close(self, w):
        for s in w.subs:
            s.close()

    def check(self, hist, w, st):
        if not hist:
            return
        g = w.ghost
        bad = []
        per_poller = []
        any_ready = False
        for sub, (it1, it2) in zip(w.subs, w.last_iter):
            if self.as_int:
                # events name numbers: put the socket object of the live side with that number in their place for the clauses below
                live = {sd.number: sd.s for j, sd in enumerate(sub.sides) if hasattr(sd, 'number') and not g['gone'][j]}
                raw1, raw2 = it1, it2
                it1 = [(n, live.get(x, x), c) for n, x, c in it1]
                it2 = [(n, live.get(x, x), c) for n, x, c in it2]
            label = {}
            for i, sd in enumerate(sub.sides):
                label[id(sd.s)] = i
            deadids = {id(x) for x in sub.dead}
            obs2 = set()
            for which, evs in (('first', it1), ('second', it2)):
                for name, sock, chan in evs:
                    if isinstance(sock, int) and self.as_int:
                        owner_i = [j for j, sd in enumerate(sub.sides) if getattr(sd, 'number', None) == sock]
                        if owner_i and g['gone'][owner_i[0]] and name in ('_disconnect', '_error') and not g['taken'][owner_i[0]]:
                            continue        # the poller noticing that the number has been closed (before anybody else got it)
                        if owner_i and g['gone'][owner_i[0]]:
                            bad.append(('V4-dead-descriptor:' + name, '%s: %s names descriptor number %d, which was closed earlier (the number now belongs to '
                                        'a descriptor nobody registered)' % (sub.pname, name, sock)))
                            continue
                        if owner_i:
                            sock = sub.sides[owner_i[0]].s
                    if id(sock) in deadids:
                        bad.append(('V4-dead-descriptor:' + name, '%s: %s names a socket that was discarded/closed earlier (fd number reused)' % (sub.pname, name)))
                        continue
                    i = label.get(id(sock))
                    if i is None:
                        bad.append(('V4-unknown-object:' + name, '%s: %s names an object that is no current socket: %r' % (sub.pname, name, sock)))
                        continue
                    role = {'_read': 'r', '_write': 'w'}.get(name)
                    kr, kw, hup = kernel(sub.sides[i].s)
                    if role and role not in g['roles'][i]:
                        bad.append(('V1-not-registered:' + name, '%s: %s for socket %d which is not registered for that role (roles %r)'
                                    % (sub.pname, name, i, sorted(g['roles'][i]))))
                    if name in ('_disconnect', '_error') and not g['roles'][i] and which == 'second':
                        bad.append(('V1-not-registered:' + name, '%s: %s for socket %d which is not registered at all' % (sub.pname, name, i)))
                    # one channel per descriptor by design (the latest add* decides): judged whenever every role registered now
                    # was last added by the component whose add* came last - then that component is `the one that registered it`
                    adders = {g['adder'][i].get(r) for r in g['roles'][i]}
                    if adders == {g['last'][i]}:
                        want = sub.owners[i].channel if g['last'][i] == 'A' else sub.second.channel
                        if chan != want:
                            bad.append(('V3-channel', '%s: %s for socket %d delivered on channel %r, registered by %r' % (sub.pname, name, i, chan, want)))
                        elif g['last'][i] == 'B':
                            st.counters['events_addressed_to_a_second_registrant'] += 1
                    if role and not hup and ((role == 'r' and not kr) or (role == 'w' and not kw)):
                        bad.append(('V1-not-ready:' + name, '%s: %s for socket %d which is not ready for it' % (sub.pname, name, i)))
                    if which == 'second' and not hup:
                        obs2.add((name, i))
            # a hung-up descriptor that has just been (re-)registered is ready for that role (EOF is readable, a write would fail
            # at once): the poller must say something about it in the iterations right after the registration - a readiness
            # event or _disconnect, both are documented - instead of staying silent
            lastop, lasti = hist[-1]
            if lastop in ('addReader', 'addWriter', 'addReaderB', 'addWriterB') and not g['gone'][lasti]:
                sd = sub.sides[lasti]
                if kernel(sd.s)[2] and not any(sock is sd.s for (_n, sock, _c) in it1 + it2):
                    bad.append(('V2-hungup-silent:' + lastop, '%s: socket %d is hung up and was just registered with %s, but no event named it'
                                % (sub.pname, lasti, lastop)))
            for i, sd in enumerate(sub.sides):
                kr, kw, hup = kernel(sd.s)
                if hup:
                    # hung up but the peer's last bytes are still unread: the descriptor is readable with real data - every poller
                    # must keep reporting it readable and must not declare it disconnected (that would drop the data)
                    if 'r' in g['roles'][i] and g['has_data'][i] and not g['peer_open'][i] and not g['gone'][i] and kr:
                        any_ready = True
                        st.counters['states_hung_up_with_unread_data_and_reader'] += 1
                        n = sum(1 for (nm, sock, ch) in it2 if nm == '_read' and sock is sd.s)
                        if n != 1:
                            bad.append(('V2-hungup-unread:_read', '%s: socket %d is registered for reading and holds unread data (its peer has closed), '
                                        'but %d _read events named it in the iteration' % (sub.pname, i, n)))
                        if any(nm == '_disconnect' and sock is sd.s for (nm, sock, ch) in it1 + it2):
                            bad.append(('V1-disconnect-with-unread-data', '%s: _disconnect for socket %d although data of its (closed) peer is still unread'
                                        % (sub.pname, i)))
                    continue
                for role, ready, evname in (('r', kr, '_read'), ('w', kw, '_write')):
                    if role in g['roles'][i] and ready:
                        any_ready = True
                        n = sum(1 for (nm, sock, ch) in it2 if nm == evname and sock is sd.s)
                        if n == 0:
                            bad.append(('V2-missing:' + evname, '%s: socket %d is registered for %s and ready, but no %s was fired in the iteration'
                                        % (sub.pname, i, role, evname)))
                        elif n > 1:
                            bad.append(('V2-duplicate:' + evname, '%s: %d %s events for socket %d in one iteration' % (sub.pname, n, evname, i)))
            per_poller.append(frozenset(obs2))
        if len(set(per_poller)) > 1:
            bad.append(('cross-poller', 'pollers disagree on non-hung-up descriptors: %r' % (
                {p: sorted(o) for p, o in zip(POLLERS, per_poller)},)))
        st.executions += 3
        if any_ready:
            st.interesting(('state', self.canon(w)))
            st.counters['states_with_registered_and_ready_descriptor'] += 1
        if any(g['gen']):
            st.counters['histories_with_fd_number_reuse'] += 1
        st.outcome((self.canon(w), tuple(sorted(per_poller[0]))))
        for e in w.selfcheck:
            st.selfcheck_errors.append('%s [history %r]' % (e, list(hist)))
        seen = set()
        for kind, text in bad:
            if (kind, text) in seen:
                continue
            seen.add((kind, text))
            st.fail(kind, '%s  [history %r]' % (text, list(hist)), {'nsock': self.nsock, 'ops': self.opnames, 'as_int': self.as_int, 'hist': [list(o) for o in hist]})
        if len(hist) == 3 and len(st.samples) < 2:
            st.sample({'hist': [list(o) for o in hist], 'events_second_iteration': sorted(map(list, per_poller[0]))})

    def canon(self, w):
        g = w.ghost
        out = []
        for sub in w.subs:
            po = sub.poller
            tabs = []
            for attr in ('_read', '_write'):
                lst = getattr(po, attr, None)
                if lst is None:
                    return None
                tabs.append(tuple(sorted(self._lab(sub, x) for x in lst)))
            tg = getattr(po, '_targets', None)
            if tg is None:
                return None
            tabs.append(tuple(sorted((self._lab(sub, k), v) for k, v in tg.items())))
            mp = getattr(po, '_map', {})
            tabs.append(tuple(sorted((k if not isinstance(k, int) else 'n%d' % k, self._lab(sub, v)) for k, v in mp.items())))
            ks = tuple(kernel(sd.s) + (sd.peer.fileno() >= 0,) for sd in sub.sides)
            out.append((tuple(tabs), ks))
        return (tuple(tuple(sorted(r)) for r in g['roles']), tuple(g['gen']), tuple(g['filled']), tuple(out),
                tuple(tuple(sorted(a.items())) for a in g['adder']), tuple(g['last']))

    @staticmethod
    def _lab(sub, x):
        for i, sd in enumerate(sub.sides):
            if x is sd.s:
                return 's%d' % i
        for j, d in enumerate(sub.dead):
            if x is d:
                return 'dead%d' % j
        if isinstance(x, int):
            return 'ctrl'
        return 'other'


FULL_OPS = ['addReader', 'addWriter', 'removeReader', 'removeWriter', 'discard', 'peer_write', 'drain', 'fill', 'unfill',
            'peer_close', 'dcr', 'ccr', 'ccx', 'ldisc']
INT_OPS = ['addReader', 'addWriter', 'removeReader', 'removeWriter', 'discard', 'peer_write', 'drain', 'peer_close', 'cx', 'take']
TWO_OWNER_OPS = ['addReader', 'addWriter', 'addReaderB', 'addWriterB', 'removeReader', 'removeWriter', 'discard', 'peer_write']
SMALL_OPS = ['addReader', 'addWriter', 'removeWriter', 'discard', 'peer_write', 'dcr', 'ccr', 'ldisc']


def run(tier, seed, workers):
    plan = [(1, FULL_OPS, 7), (2, SMALL_OPS, 4), (2, FULL_OPS, 3), (1, TWO_OWNER_OPS, 5)] if tier == 'quick' else [
        (1, FULL_OPS, 12), (2, SMALL_OPS, 8), (2, FULL_OPS, 6), (1, TWO_OWNER_OPS, 9), (2, TWO_OWNER_OPS, 5)]
    total = core.Stats()
    states = 0
    plan = [p + (False,) for p in plan] + [(1, INT_OPS, 5 if tier == 'quick' else 8, True), (2, INT_OPS, 3 if tier == 'quick' else 5, True)]
    for nsock, ops, depth, as_int in plan:
        st = e1_history.bfs(PollModel(nsock, ops, as_int), depth, workers, seed, max_states=300000)
        st.bounds = {'sockets%d_ops%d%s' % (nsock, len(ops), '_registered_by_number' if as_int else ''): dict(st.bounds)}
        states += st.states
        total.merge(st)
    # many descriptors at once (one long history, not a search): every registered-and-ready descriptor is reported, each once
    # (three worlds of n socket pairs each must stay below FD_SETSIZE = 1024 descriptors: the Select poller cannot do more)
    for n in ((40,) if tier == 'quick' else (40, 150)):
        model = PollModel(n, FULL_OPS)
        hist = [('addReader', i) for i in range(n)] + [('addWriter', i) for i in range(0, n, 2)] + [('peer_write', i) for i in range(0, n, 3)]
        hist += [('removeReader', i) for i in range(0, n, 6)] + [('discard', i) for i in range(1, n, 7)] + [('peer_close', i) for i in range(2, n, 9)]
        hist += [('peer_write', n - 1), ('addWriter', n - 1)]
        hist = tuple(hist)
        w = model.build(hist)
        sst = core.Stats()
        try:
            # every prefix ending in the last 3 operations is judged (check() judges the state after the last operation)
            model.check(hist, w, sst)
        finally:
            model.close(w)
        sst.counters['many_descriptor_histories'] += 1
        sst.samples = []
        total.merge(sst)
    total.states = states
    if not total.counters['states_with_registered_and_ready_descriptor']:
        total.selfcheck_errors.append('vacuity: nothing was ever registered and ready')
    if not total.counters['histories_with_fd_number_reuse']:
        total.selfcheck_errors.append('vacuity: no fd reuse')
    return total


def replay(wj):
    model = PollModel(wj['nsock'], wj['ops'], bool(wj.get('as_int')))
    hist = tuple(tuple(o) for o in wj['hist'])
    w = model.build(hist)
    st = core.Stats()
    try:
        model.check(hist, w, st)
        text = 'history %r\nevents per poller (first, second iteration):\n' % (list(hist),)
        for sub, its in zip(w.subs, w.last_iter):
            text += '  %s: %r\n' % (sub.pname, [[(n, model._lab(sub, s), c) for n, s, c in it] for it in its])
    finally:
        model.close(w)
    for sig, fl in st.failures.items():
        for f in fl:
            text += 'VIOLATED %s: %s\n' % (sig, f.message)
    if not st.failures:
        text += 'set model and all three pollers agree\n'
    return (not st.failures), text
