"""C15 - every HTTP response is a well-formed, self-delimiting message with exact body.

Engine E4: the product of handler result kinds x sizes x status x protocol version x Connection wish x method, alone and in
sequences on one connection, runs through the real HTTP component; the captured bytes of each response are decoded by
http.client.HTTPResponse (independent implementation) and compared with a reference computed from the case.
"""
import http.client
import io
import itertools

from circuits.core.components import BaseComponent
from circuits.core.handlers import handler
from circuits.web.controllers import Controller
from circuits.web.errors import notfound

from mc import core, httpharness as hh

PROPERTY = 'C15'
LEVEL = 'model_checking'
RULE = ('case = body kind {empty str, str, bytes, list, list with None, returned generator (coroutine), streamed generator of str / of '
        'bytes / with empty items first-middle-last / with None items / many chunks, file object, file-like object with short reads, streamed list, non-streamed generator / tuple, str / bytes / list with streaming switched on, streamed generator failing before the first / after the second chunk} x size {0, small with multi-byte '
        'characters, 70 KiB} x status {200, 201, 204, 304, 302 via a returned redirect event, 303 via raise Redirect, 403 via raise Forbidden, 404 via notfound(), 500 via raise} x entry {plain component handling `request`, Controller method behind the Dispatcher} x HTTP/1.0 | 1.1 x Connection {absent, '
        'keep-alive, close; also written Close, CLOSE, Keep-Alive, KEEP-ALIVE and inside a list of options} x {GET, HEAD}; every single case and every sequence of 2 (thorough: 3 from a reduced menu) cases on one '
        'connection; non-trivial = every case; distinct = distinct case sequence')
ASSUMPTIONS = [
    'http.client.HTTPResponse is the independent decoder; each response is decoded from exactly the bytes written for it',
    'for 404/500 only status, framing and closing are judged (the body is the library\'s own error page)',
    '204/304 are generated with an empty application body and with a body the application left there (it is not sent)',
    'a 1.0 client without keep-alive and any client sending Connection: close must see the connection closed after the response',
]

BIG = 70 * 1024


def content(size):
    if size == 'zero':
        return ''
    if size == 'small':
        return 'héllo wörld'         # multi-byte characters: len(str) != len(bytes)
    return ('0123456789abcdefé' * (BIG // 17 + 1))[:BIG]


def chunks(text, n):
    if not text:
        return []
    step = max(1, len(text) // n)
    return [text[i:i + step] for i in range(0, len(text), step)]


KINDS = ['str', 'bytes', 'list', 'listnone', 'coroutine', 'gen_str', 'gen_bytes', 'gen_empty_first', 'gen_empty_mid', 'gen_empty_last',
         'gen_many', 'file', 'shortread_file', 'stream_list', 'gen_nostream', 'tuple', 'stream_str', 'stream_bytes', 'stream_plainlist', 'gen_none_mid']


def make_body(kind, size, res):
    """returns (value to return from the handler, expected body bytes)"""
    text = content(size)
    data = text.encode('utf-8')
    if kind == 'str':
        return text, data
    if kind == 'bytes':
        return data, data
    if kind == 'list':
        return chunks(text, 3), data
    if kind == 'listnone':
        c = chunks(text, 2)
        return [None] + c + [None], data
    if kind == 'coroutine':
        # a generator RETURNED by a handler is a coroutine for the manager: its yields accumulate into the value
        return None, data
    if kind in ('gen_str', 'gen_bytes', 'gen_empty_first', 'gen_empty_mid', 'gen_empty_last', 'gen_many', 'stream_list', 'gen_none_mid'):
        items = chunks(text, 12 if kind == 'gen_many' else 3)
        if kind == 'gen_bytes':
            items = [i.encode('utf-8') for i in items]
        if kind == 'gen_empty_first':
            items = [''] + items
        elif kind == 'gen_empty_mid':
            items = items[:1] + ['', ''] + items[1:]
        elif kind == 'gen_empty_last':
            items = items + ['']
        elif kind == 'gen_none_mid':
            items = [None] + items[:1] + [None] + items[1:]       # None parts are skipped, as in list bodies
        res.stream = True
        res.body = iter(items) if kind == 'stream_list' else (x for x in items)
        return res, data
    if kind in ('stream_str', 'stream_bytes', 'stream_plainlist'):
        # streaming switched on, but the body is no iterator: a str / bytes / list as for any other response
        res.stream = True
        if kind == 'stream_plainlist':
            res.body = chunks(text, 3)
            return res, data
        return (text if kind == 'stream_str' else data), data
    if kind in ('gen_raise_mid', 'gen_raise_first'):
        # a streamed body whose producer fails after two chunks / before the first one: the headers have gone out, so the only
        # way left to tell the client is to end the connection - the chunks produced so far, no second message, no open end
        items = chunks(text, 3)[:2] if kind == 'gen_raise_mid' else []

        def failing():
            for x in items:
                yield x
            raise RuntimeError('the producer of the body failed')
        res.stream = True
        res.body = failing()
        return res, ''.join(items).encode('utf-8')
    if kind in ('gen_nostream', 'tuple'):
        # an iterable body of unknown length that is NOT streamed: joined and sent at once (chunked for 1.1, until-close for 1.0)
        items = chunks(text, 3)
        res.body = tuple(items) if kind == 'tuple' else (x for x in items)
        return res, data
    if kind == 'shortread_file':
        # a stream whose read(n) legitimately returns fewer than n bytes before its end (raw / unbuffered streams, pipes)
        res.body = ShortReads(data)
        return res, data
    if kind == 'file':
        res.body = io.BytesIO(data)
        return res, data
    raise ValueError(kind)


class ShortReads:
    def __init__(self, data, piece=37):
        self._f = io.BytesIO(data)
        self._piece = piece
        self.closed = False

    def read(self, n=-1):
        return self._f.read(self._piece if n is None or n < 0 else min(n, self._piece))

    def close(self):
        self.closed = True


def handle(owner, req, res):
    """the application: consumes one case of the plan per request (shared by the plain component and the Controller)"""
    case = owner.plan.pop(0)
    kind, size, status, version, conn, method = case
    if status == 500:
        owner.expect.append(None)
        raise RuntimeError('application failure')
    if status == 404:
        owner.expect.append(None)
        return notfound(req, res)
    if status == 302:
        # a redirect event handed back by the handler (what Controller.redirect() does)
        owner.expect.append(None)
        from circuits.web.errors import redirect
        return redirect(req, res, ['/elsewhere'], 302)
    if status == 303:
        # ... and the exception flavour (its code is 303)
        owner.expect.append(None)
        from circuits.web.exceptions import Redirect
        raise Redirect('/elsewhere')
    if status == 403:
        owner.expect.append(None)
        from circuits.web.exceptions import Forbidden
        raise Forbidden()
    res.status = status
    if kind == 'coroutine':
        text = content(size)
        owner.expect.append(text.encode('utf-8'))
        return _coro(text)
    value, data = make_body(kind, size, res)
    owner.expect.append(data)
    return value


def _coro(text):
    for part in chunks(text, 3):
        yield part


class App(BaseComponent):
    """entry 'component': a plain component handling the request event itself"""
    channel = 'web'
    plan = None        # list of cases, consumed one per request
    expect = None

    @handler('request', priority=0.5)
    def _on_request(self, event, req, res, *a):
        return handle(self, req, res)


class Ctl(Controller):
    """entry 'controller': the usual way - an exposed Controller method found by the Dispatcher"""
    channel = '/'
    plan = None
    expect = None

    def x(self, *args, **kwargs):
        return handle(self, self.request, self.response)


def request_bytes(case):
    kind, size, status, version, conn, method = case
    lines = ['%s /x HTTP/%s' % (method, version), 'Host: example.test']
    if conn:
        lines.append('Connection: %s' % conn)
    return ('\r\n'.join(lines) + '\r\n\r\n').encode()


class NoClose(io.BytesIO):
    def close(self):
        pass


class FakeSock:
    def __init__(self, b):
        self.f = NoClose(b)

    def makefile(self, *a, **k):
        return self.f


def decode(data, method):
    fs = FakeSock(data)
    r = http.client.HTTPResponse(fs, method=method)
    r.begin()
    body = r.read()
    return r, body, fs.f.tell()


def run_sequence(seq, entry='component'):
    app = App() if entry == 'component' else Ctl()
    app.plan = list(seq)
    app.expect = []
    w = hh.HttpWorld(controllers=(app,), dispatcher=(entry == 'controller'))
    out = []
    try:
        sock = w.new_sock()
        for case in seq:
            if sock in w.closed:
                out.append(('not-sent-connection-closed',))
                continue
            before = len(w.written[sock])
            nev = len(w.events[sock])
            w.feed(sock, request_bytes(case))
            out.append(('resp', bytes(w.written[sock][before:]), sock in w.closed, list(w.events[sock][nev:]), w.crashed, list(w.exceptions)))
        expect = list(app.expect)
    finally:
        w.cleanup()
    return out, expect


def judge(seq, out, expect):
    bad = []
    prev_closed = False
    for i, case in enumerate(seq):
        kind, size, status, version, conn, method = case
        tag = '%s/%s/%d/%s/%s/%s' % (kind, size, status, version, conn or 'absent', method)
        cls = '%s:%s:%s' % (kind if status < 300 or status == 304 else 'error%d' % status, 'HEAD' if method == 'HEAD' else version, conn or 'absent')
        o = out[i]
        if o[0] != 'resp':
            if not prev_closed:
                bad.append(('harness', 'request %d not sent' % i))
            continue
        _, data, closed, events, crashed, excs = o
        if crashed:
            bad.append(('crash:' + cls, 'exception escaped the loop: %s [%s]' % (crashed, tag)))
            continue
        if not data:
            bad.append(('no-response:' + cls, 'nothing was written for request %d [%s]' % (i + 1, tag)))
            continue
        if kind in ('gen_raise_mid', 'gen_raise_first') and method != 'HEAD':
            bad.extend(judge_aborted(data, closed, expect[i] if i < len(expect) else b'', cls, tag))
            prev_closed = closed
            continue
        try:
            r, body, consumed = decode(data, method)
        except Exception as exc:  # noqa: BLE001
            bad.append(('undecodable:' + cls, 'http.client cannot decode the response: %r; bytes start with %r [%s]' % (exc, data[:80], tag)))
            continue
        until_close = r.length is None and not r.chunked and method != 'HEAD' and r.status not in (204, 304)
        if until_close:
            consumed = len(data)
        if consumed != len(data):
            bad.append(('trailing-bytes:' + cls, '%d bytes after the end of the response: %r [%s]' % (len(data) - consumed, data[consumed:consumed + 40], tag)))
        if r.status != status:
            bad.append(('status:' + cls, 'status %d, application set %d [%s]' % (r.status, status, tag)))
        exp = expect[i] if i < len(expect) else None
        nobody = method == 'HEAD' or status in (204, 304)
        if nobody:
            if body:
                bad.append(('body-not-allowed:' + cls, '%d body bytes in a response that must not have a body [%s]' % (len(body), tag)))
        elif exp is not None and body != exp:
            bad.append(('body:' + cls, 'decoded body has %d bytes (%r...), the application produced %d bytes (%r...) [%s]'
                        % (len(body), body[:30], len(exp), exp[:30], tag)))
        if method == 'HEAD' and exp is not None and r.getheader('Content-Length') is not None and status == 200 and not r.chunked:
            if int(r.getheader('Content-Length')) != len(exp) and kind in ('str', 'bytes', 'list', 'listnone'):
                bad.append(('head-length:' + cls, 'HEAD announces Content-Length %s, GET body has %d bytes [%s]' % (r.getheader('Content-Length'), len(exp), tag)))
        if r.chunked and version == '1.0':
            bad.append(('chunked-for-1.0:' + cls, 'chunked transfer encoding sent to an HTTP/1.0 client [%s]' % tag))
        if until_close and not closed:
            bad.append(('unterminated:' + cls, 'body delimited by connection close but the connection was not closed [%s]' % tag))
        if r.version == 10 and version == '1.1' and False:
            pass
        # closing: iff announced
        if r.will_close and not closed:
            bad.append(('close-missing:' + cls, 'response announces close (or is not self-delimiting) but no close event followed [%s]' % tag))
        if not r.will_close and closed:
            bad.append(('close-unannounced:' + cls, 'connection closed although the response keeps it alive [%s]' % tag))
        options = {x.strip().lower() for x in (conn or '').split(',')}       # Connection is a list of options (RFC 7230 6.1)
        must_close = 'close' in options or (version == '1.0' and 'keep-alive' not in options)
        if must_close and not closed:
            bad.append(('client-close-wish-ignored:' + cls, 'the client asked for / implies close but the connection stays open [%s]' % tag))
        seen_close = False
        for ev in events:
            if ev[0] == 'close':
                seen_close = True
            elif seen_close:
                bad.append(('write-after-close:' + cls, 'bytes written after the close event [%s]' % tag))
                break
        prev_closed = closed
    return bad


def judge_aborted(data, closed, produced, cls, tag):
    """the body's producer failed: one message on the wire carrying what had been produced, then the connection is closed"""
    bad = []
    if data.count(b'HTTP/1.') != 1 or not data.startswith(b'HTTP/1.'):
        bad.append(('aborted-stream:second-message:' + cls, 'the producer of the body failed; %d status lines on the wire (a second message '
                    'behind the unfinished one) [%s]' % (data.count(b'HTTP/1.'), tag)))
        return bad
    if not closed:
        bad.append(('aborted-stream:left-open:' + cls, 'the producer of the body failed; the unfinished response is left as it is and the '
                    'connection stays open (the client waits for ever, its next request is taken for part of this one) [%s]' % tag))
    fs = FakeSock(data)
    r = http.client.HTTPResponse(fs, method='GET')
    try:
        r.begin()
        try:
            body = r.read()
            complete = True
        except http.client.IncompleteRead as exc:
            body, complete = exc.partial, False
    except Exception as exc:  # noqa: BLE001
        bad.append(('undecodable:' + cls, 'http.client cannot decode the head of the response: %r [%s]' % (exc, tag)))
        return bad
    if body != produced:
        bad.append(('aborted-stream:body:' + cls, 'body bytes on the wire %r, produced before the failure %r [%s]' % (body[:40], produced[:40], tag)))
    if complete and (r.chunked or r.length is not None):
        bad.append(('aborted-stream:looks-complete:' + cls, 'the unfinished body is delimited like a complete one [%s]' % tag))
    return bad


def single_cases(tier):
    for kind in KINDS:
        for size in ('zero', 'small', 'big'):
            for status in (200, 201):
                for version in ('1.0', '1.1'):
                    for conn in (None, 'keep-alive', 'close'):
                        for method in ('GET', 'HEAD'):
                            if status == 201 and (size == 'big' or method == 'HEAD'):
                                continue
                            if kind == 'coroutine' and size == 'zero':
                                continue    # a handler that produces no value at all means "not handled" (404) by design
                            yield (kind, size, status, version, conn, method)
    for kind in ('gen_raise_mid', 'gen_raise_first'):
        for version in ('1.0', '1.1'):
            for conn in (None, 'keep-alive', 'close'):
                for method in ('GET', 'HEAD'):
                    yield (kind, 'small', 200, version, conn, method)
    for status in (204, 304):
        for kind in ('str', 'gen_str', 'file', 'list'):
            # 'small': the application left a body there - these statuses are sent without one all the same
            for size in ('zero', 'small'):
                for version in ('1.0', '1.1'):
                    for conn in (None, 'keep-alive', 'close'):
                        for method in ('GET', 'HEAD'):
                            yield (kind, size, status, version, conn, method)
    for status in (404, 500, 302, 303, 403):
        for version in ('1.0', '1.1'):
            for conn in (None, 'keep-alive', 'close'):
                for method in ('GET', 'HEAD'):
                    yield ('str', 'small', status, version, conn, method)


# connection options are case-insensitive, and the header is a comma-separated list of them (RFC 7230 6.1)
MIXED_CASE = ('Close', 'CLOSE', 'Keep-Alive', 'KEEP-ALIVE', 'TE, close', 'close, TE', 'keep-alive, TE', 'TE,Keep-Alive')


def sequences(tier):
    singles = list(single_cases(tier))
    for c in singles:
        yield (c,)
    # the Connection wish written in another case: the same behaviour as in lower case, alone and followed by a second request
    for kind in ('str', 'gen_str', 'file'):
        for version in ('1.0', '1.1'):
            for conn in MIXED_CASE:
                for method in ('GET', 'HEAD'):
                    yield ((kind, 'small', 200, version, conn, method),)
                if 'keep-alive' in conn.lower():
                    for conn2 in (None, 'close', 'Close'):
                        yield ((kind, 'small', 200, version, conn, 'GET'), ('str', 'small', 200, '1.1', conn2, 'GET'))
    # sequences: first request keeps the connection alive
    firsts = [c for c in singles if c[1] != 'big' and ((c[3] == '1.1' and c[4] != 'close') or (c[3] == '1.0' and c[4] == 'keep-alive'))]
    seconds = [c for c in singles if c[1] == 'small' and c[2] in (200, 404) and c[0] in ('str', 'gen_str', 'file', 'coroutine') and c[5] == 'GET'
               and c[4] in (None, 'close')]
    if tier == 'quick':
        firsts = [c for c in firsts if c[1] == 'small' or c[0] in ('gen_empty_first', 'str', 'file', 'stream_str')]
        seconds = [c for c in seconds if c[3] == '1.1']
    for a in firsts:
        for b in seconds:
            yield (a, b)
    if tier != 'quick':
        f3 = [c for c in firsts if c[1] == 'small' and c[0] in ('str', 'gen_str', 'file', 'coroutine', 'gen_empty_first') and c[2] == 200]
        for a, b in itertools.product(f3, repeat=2):
            for c in seconds[:6]:
                yield (a, b, c)


def _work(part, nparts, payload):
    tier, seed = payload
    core.quiet_stderr()
    st = core.Stats()
    for idx, seq in enumerate(itertools.islice(sequences(tier), part, None, nparts)):
      for entry in ('component', 'controller'):
        if entry == 'controller' and any(c[0] == 'coroutine' for c in seq):
            continue      # (a Controller method is itself the handler; the coroutine kind is about handlers of the request event)
        out, expect = run_sequence(seq, entry)
        st.executions += 1
        st.transitions += len(seq)
        st.interesting((entry, seq))
        st.outcome((entry,) + tuple((o[0], hh.strip_dates(o[1])[:300], o[2]) if o[0] == 'resp' else o for o in out))
        if len(seq) > 1:
            st.counters['sequences_on_one_connection'] += 1
        if entry == 'controller':
            st.counters['sequences_through_dispatcher_and_controller'] += 1
        if any(o[0] == 'resp' and b'chunked' in o[1][:400] for o in out):
            st.counters['chunked_responses'] += 1
        if any(o[0] == 'resp' and o[2] for o in out):
            st.counters['responses_followed_by_close'] += 1
        for kind, text in judge(seq, out, expect):
            if kind == 'harness':
                st.selfcheck_errors.append(text)
            else:
                st.fail(kind + (':controller' if entry == 'controller' else ''), text + (' [through Dispatcher + Controller]' if entry == 'controller' else ''),
                        {'seq': [list(c) for c in seq], 'entry': entry})
        if part == 0 and idx in (3, 40):
            st.sample({'case': list(seq[0]), 'response_head': out[0][1][:160].decode('latin1') if out[0][0] == 'resp' else None})
    return st


def run(tier, seed, workers):
    total = sum(1 if any(c[0] == 'coroutine' for c in q) else 2 for q in sequences(tier))     # two entries, see _work
    st = core.parallel(_work, (tier, seed), workers, nparts=workers * 6)
    if st.executions != total:
        st.selfcheck_errors.append('enumeration: %d of %d' % (st.executions, total))
    probe = (('gen_str', 'small', 200, '1.1', None, 'GET'),)
    a, b = run_sequence(probe), run_sequence(probe)
    if hh.strip_dates(a[0][0][1]) != hh.strip_dates(b[0][0][1]):
        st.selfcheck_errors.append('determinism: two runs differ')
    st.states = len(st.outcomes)
    st.bounds = {'single_cases': sum(1 for _ in single_cases(tier)), 'sequences': total, 'big_body_bytes': BIG}
    for c in ('sequences_on_one_connection', 'chunked_responses', 'responses_followed_by_close'):
        if not st.counters[c]:
            st.selfcheck_errors.append('vacuity: ' + c)
    return st


def replay(wj):
    seq = tuple(tuple(c) for c in wj['seq'])
    out, expect = run_sequence(seq, wj.get('entry', 'component'))
    bad = judge(seq, out, expect)
    text = 'sequence %r (entry: %s)\n' % (seq, wj.get('entry', 'component'))
    for o in out:
        text += '  %r\n' % ((o[0], o[1][:300], o[2], o[3]) if o[0] == 'resp' else o,)
    text += ''.join('VIOLATED %s: %s\n' % b for b in bad) or 'all clauses hold\n'
    return (not bad), text
