"""C11 - stream writes arrive in order, each byte once, and close waits for the buffer.

Engine E3 (fault enumeration): real Server / UNIXClient / TCPClient / File components on a real poller; the OS write call is
scripted: every send()/os.write() is a choice point {accept all (default), accept 1, accept n-1, EAGAIN, EINTR, ENOBUFS,
EPIPE, ECONNRESET}; every script with <= k deviations is executed (fatal answers are sticky).
"""
import errno
import io
import os
import socket
import threading

import circuits.core.pollers as pollers_mod
import circuits.io.file as file_mod
from circuits.core.components import BaseComponent
from circuits.core.events import Event, generate_events
from circuits.core.handlers import handler
from circuits.io.file import File
from circuits.net.events import close, write
from circuits.net.sockets import TCPClient, TCPServer, UNIXClient
from circuits.net.events import connect as connect_event

from mc import core, e3_deviation as e3

PROPERTY = 'C11'
LEVEL = 'fault_enumeration'
RULE = ('program = endpoint {server connection, UNIX client, TCP client, File} x poller x 1-3 write events with payloads of 0, 1, 3 '
        'distinct bytes x position of a close request (none / after write i; issued once or twice) x delivery mode (all events at once / one per loop '
        'iteration) x optionally a hang-up reported by the poller after 0-2 iterations; environment = outcome of every send()/os.write(): accept all | 1 byte | n-1 bytes | EAGAIN | EINTR | ENOBUFS | '
        'EPIPE | ECONNRESET with <= k non-default answers; non-trivial = execution with at least one non-default answer that '
        'exercised a requeue / deferred close / fatal path; distinct = distinct (program, answer script)')
ASSUMPTIONS = [
    'EAGAIN and EWOULDBLOCK are the same errno on Linux (one alternative)',
    'ENOBUFS is not offered to File (write(2) on a file or pipe does not return it)',
    'payloads requested after the close request are not required to be written (only: the accepted bytes stay a prefix)',
    'the descriptor is real and always writable; only the write call itself is scripted',
]

CUR = None
FATAL = (errno.EPIPE, errno.ECONNRESET)
TRANSIENT = (errno.EAGAIN, errno.EINTR, errno.ENOBUFS)


class SSock(socket.socket):
    def send(self, data, *a):
        return CUR.on_send(bytes(data), self)

    def close(self):
        if CUR is not None and not getattr(self, '_gh_closed', False):
            self._gh_closed = True
            CUR.on_close('close')
        super().close()

    def shutdown(self, how):
        if CUR is not None:
            CUR.on_close('shutdown')

    def getpeername(self):
        return ('127.0.0.1', 9)

    def connect(self, addr):
        raise OSError(errno.EISCONN, 'already connected')

    def connect_ex(self, addr):
        return errno.EISCONN


class SListener(socket.socket):
    def accept(self):
        w = CUR
        if w is not None and w.pending is not None:
            s, w.pending = w.pending, None
            w.kick.recv(1)
            return s, ('127.0.0.1', 9)
        raise BlockingIOError(errno.EAGAIN, 'nothing to accept')


class SFile(io.FileIO):
    def close(self):
        if CUR is not None and not self.closed:
            CUR.on_close('close')
        super().close()


def _fd_write(fd, data):
    if CUR is not None and fd == CUR.filefd:
        return CUR.on_send(bytes(data), None)
    return os.write(fd, data)


class Obs(BaseComponent):
    world = None

    @handler('connect', 'disconnect', 'disconnected', 'error', 'closed', 'connected', 'opened', priority=50)
    def _on_any(self, event, *a, **k):
        self.world.events.append(event.name)


def _s(b):
    if isinstance(b, (tuple, list)):
        return '[' + ', '.join(_s(x) for x in b) + ']'
    return repr(b) if len(b) < 80 else repr(b[:30]) + '...(%d bytes)' % len(b)


def wrap(cls, s):
    return cls(s.family, s.type, s.proto, fileno=s.detach())


class World:
    def __init__(self, program, prefix):
        global CUR
        CUR = self
        file_mod.fd_write = _fd_write
        self.program = program
        endpoint, pname, payloads, close_after, mode = program
        self.env = e3.Env(prefix)
        enc = [q.encode('utf-8') if isinstance(q, str) else q for q in payloads]     # File also accepts text payloads
        self.expected = b''.join(enc)
        self.need_before_close = b''.join(enc[:close_after]) if close_after is not None else None
        self.accepted = b''
        self.fatal = None
        self.closed_at = None
        self.bad = []
        self.events = []
        self.sends = 0
        self.paths = set()
        self.filefd = None
        self.pending = None
        self.lock = threading.RLock()
        self.root = BaseComponent()
        self.poller = getattr(pollers_mod, pname)().register(self.root)
        self.extra = []
        a, b = socket.socketpair()
        self.peer = b
        self.extra.append(b)
        if endpoint in ('server', 'server_closeall'):
            la, lb = socket.socketpair()
            self.kick = wrap(SListener, la)
            self.extra += [lb, self.kick]
            lb.send(b'k')                      # makes the listener readable once
            self.pending = wrap(SSock, a)
            self.sock = self.pending
            self.comp = TCPServer(self.kick, channel='ep').register(self.root)
        elif endpoint == 'unixclient':
            self.sock = wrap(SSock, a)
            self.comp = UNIXClient(self.sock, channel='ep').register(self.root)
        elif endpoint == 'tcpclient':
            self.sock = wrap(SSock, a)
            self.comp = TCPClient(self.sock, channel='ep').register(self.root)
        elif endpoint == 'file':
            self.filefd = a.detach()
            self.sock = SFile(self.filefd, 'wb')
            self.comp = File(self.sock, channel='ep').register(self.root)
        self.extra.append(self.sock)
        obs = Obs(channel='ep')
        obs.world = self
        obs.register(self.root)
        self.flush()
        if endpoint == 'unixclient':
            self.root.fire(connect_event('/nowhere'), 'ep')
        elif endpoint == 'tcpclient':
            self.root.fire(connect_event('127.0.0.1', 9), 'ep')
        for _ in range(6):
            self.iteration()
        self.ready = ('connect' in self.events or 'connected' in self.events or 'opened' in self.events)

    def flush(self):
        n = 0
        while len(self.root) and n < 12:
            self.root.tick()
            n += 1

    def iteration(self):
        self.root.fire(generate_events(self.lock, 0), '*')
        self.flush()

    # -- the scripted OS -----------------------------------------------------------------------------
    def on_send(self, data, sock):
        self.sends += 1
        if self.closed_at is not None:
            self.bad.append(('send-after-close', 'write call with %s after the endpoint had been closed' % (_s(data),)))
        if self.fatal is not None:
            raise OSError(self.fatal, os.strerror(self.fatal))
        n = len(data)
        cap = 1 << 20           # like a real socket, the OS never takes more than its buffer size in one call
        opts = [('all', min(n, cap))]
        if n > 1:
            opts.append(('part', 1))
        if n > 2:
            opts.append(('part', n - 1))
        errs = [errno.EAGAIN, errno.EINTR] + ([errno.ENOBUFS] if self.program[0] != 'file' else []) + list(FATAL)
        opts += [('err', e) for e in errs]
        kind, val = opts[self.env.choose('send', len(opts))]
        if kind == 'err':
            if val in FATAL:
                self.fatal = val
                self.paths.add('fatal')
            else:
                self.paths.add('transient')
            raise OSError(val, os.strerror(val))
        if kind == 'part' or val < n:
            self.paths.add('partial')
        taken = data[:val]
        new = self.accepted + taken
        if not self.expected.startswith(new):
            self.bad.append(('not-a-prefix', 'OS accepted %s after %s; the payloads written were %s' % (_s(taken), _s(self.accepted), _s(self.program[2]))))
        self.accepted = new
        return val

    def on_close(self, how):
        if self.closed_at is None:
            self.closed_at = len(self.accepted)
            if self.fatal is None and self.need_before_close is not None and not self.accepted.startswith(self.need_before_close):
                self.bad.append(('closed-early', '%s() while only %s of %s (written before the close request) had been accepted'
                                 % (how, _s(self.accepted), _s(self.need_before_close))))
            if self.fatal is None and self.need_before_close is None:
                self.bad.append(('closed-unasked', '%s() although no close was requested and no fatal error occurred' % how))

    def cleanup(self):
        global CUR
        CUR = None
        for x in self.extra:
            try:
                x.close()
            except OSError:
                pass
        for fd in (getattr(self.poller, '_ctrl_recv', None), getattr(self.poller, '_ctrl_send', None)):
            if isinstance(fd, int):
                try:
                    os.close(fd)
                except OSError:
                    pass
        p = getattr(self.poller, '_poller', None)
        if p is not None and hasattr(p, 'close'):
            try:
                p.close()
            except Exception:  # noqa: BLE001
                pass


def execute(program, prefix):
    endpoint, pname, payloads, close_after, mode = program
    mode, _, hang = mode.partition('@')  # '@k': after k loop iterations the poller reports the descriptor hung up (peer reset)
    hang = int(hang) if hang else None
    twice = mode.endswith('2')      # the close request is issued twice (two handlers both ask, close() then a shutdown, ...)
    mode = mode.rstrip('2')
    w = World(program, prefix)
    try:
        if not w.ready:
            w.bad.append(('harness', 'endpoint did not become ready: events %r' % (w.events,)))
            return w
        evs = []
        for i, p in enumerate(payloads):
            evs.append(write(w.sock, p) if endpoint.startswith('server') else write(p))
            if close_after == i + 1:
                # server_closeall: the close event without a socket - the whole server, every connection (buffered data first)
                evs.append(close(w.sock) if endpoint == 'server' else close())
                if twice:
                    evs.append(close(w.sock) if endpoint == 'server' else close())
        if mode == 'burst':
            for e in evs:
                w.root.fire(e, 'ep')
            evs = []
        quiet = 0
        for it in range(60):
            if mode == 'spread' and evs:
                w.root.fire(evs.pop(0), 'ep')
            if hang is not None and it == hang and w.closed_at is None:
                # the peer is gone: from now on the OS refuses every write, and the poller says so
                w.fatal = errno.ECONNRESET
                w.paths.add('hangup')
                w.root.fire(Event.create('_disconnect', w.sock), 'ep')
            before = (w.sends, len(w.events), len(w.accepted))
            w.iteration()
            if before == (w.sends, len(w.events), len(w.accepted)) and not evs:
                quiet += 1
                if quiet >= 3:
                    break
            else:
                quiet = 0
        else:
            w.bad.append(('no-quiescence', 'still active after 60 loop iterations'))
        # verdict at quiescence
        if w.fatal is None:
            if close_after is None:
                if w.accepted != w.expected:
                    w.bad.append(('lost-bytes', 'at quiescence the OS has accepted %s, written were %s' % (_s(w.accepted), _s(payloads))))
            else:
                if not w.accepted.startswith(w.need_before_close):
                    w.bad.append(('lost-bytes', 'at quiescence the OS has accepted %s; %s was written before the close request'
                                  % (_s(w.accepted), _s(w.need_before_close))))
                if w.closed_at is None:
                    w.bad.append(('never-closed', 'close was requested but the endpoint is still open at quiescence'))
        # nothing is written after the endpoint has closed: what it still holds for writing would go out on its next use
        if w.closed_at is not None or w.fatal is not None:
            held = None
            if endpoint.startswith('server'):
                bufs = getattr(w.comp, '_buffers', None)
                if bufs is not None and w.sock in bufs:
                    held = sum(len(x) for x in bufs[w.sock])
            else:
                buf = getattr(w.comp, '_buffer', None)
                if buf is not None:
                    held = sum(len(x) for x in buf)
            if held:
                w.bad.append(('residue-after-close', 'the closed endpoint still holds %d byte(s) queued for writing (they would be written '
                              'on its next connection)' % held))
            pending_close = (w.sock in getattr(w.comp, '_closeq', ())) if endpoint.startswith('server') else bool(getattr(w.comp, '_closeflag', False))
            if pending_close and not endpoint.startswith('server'):
                w.bad.append(('close-request-after-close', 'the closed endpoint still holds a pending close request (its next connection '
                              'would be closed unasked as soon as its buffer drains)'))
        if w.fatal is not None:
            if not any(e in ('error', 'disconnect', 'disconnected', 'closed') for e in w.events):
                w.bad.append(('fatal-unsignalled', 'send failed with %s but no error/disconnect event was fired (events %r)'
                              % (errno.errorcode.get(w.fatal), w.events)))
    finally:
        w.cleanup()
    return w


PAY = {0: b'', 1: b'a', 3: b'bcd'}


def payload_lists(maxn):
    out = []
    import itertools
    for n in range(1, maxn + 1):
        for combo in itertools.product((0, 1, 3), repeat=n):
            letters = iter(b'ABCDEFGHIJKLMNOP')
            out.append(tuple(bytes(next(letters) for _ in range(k)) for k in combo))
    return out


def programs(tier):
    endpoints = ('server', 'unixclient', 'tcpclient', 'file')
    pollers = ('Select',) if tier == 'quick' else POLLERS
    k = 2 if tier == 'quick' else 3
    maxn = 2 if tier == 'quick' else 3
    for ep in endpoints:
        for pn in pollers:
            for pl in payload_lists(maxn):
                for ca in [None] + list(range(1, len(pl) + 1)):
                    for mode in ('burst', 'spread'):
                        yield (ep, pn, pl, ca, mode), k
    # the close request arrives twice while data written before it may still be buffered
    for ep in endpoints:
        for pn in pollers:
            for pl in payload_lists(maxn):
                if not any(pl):
                    continue
                for ca in range(1, len(pl) + 1):
                    for mode in ('burst2', 'spread2'):
                        yield (ep, pn, pl, ca, mode), k
    # the peer goes away (hang-up reported by the poller) while a close request is waiting behind buffered data
    for ep in endpoints:
        for pn in pollers:
            for pl in ((b'ABC',), (b'A', b'BCD')):
                for ca in (None, len(pl)):
                    for hang in (0, 1, 2):
                        yield (ep, pn, pl, ca, 'burst@%d' % hang), k
    # the whole server is closed (close event without a socket) while a connection still has data buffered
    for pn in pollers:
        for pl in payload_lists(maxn):
            if not any(pl):
                continue
            for mode in ('burst', 'spread'):
                yield ('server_closeall', pn, pl, len(pl), mode), k
    # File: text payloads with multi-byte characters (encoded by the component; the OS counts bytes, not characters)
    for pl in (('h\u00e9llo',), ('\u00e9', 'a\u20acb'), ('\u00e9\u00e9\u00e9', 'x')):
        for ca in (None, len(pl)):
            for mode in ('burst', 'spread'):
                yield ('file', 'Select', pl, ca, mode), k
    # one multi-megabyte payload (larger than what one send() takes): 3 MiB + 5 bytes, alone and behind a short one
    big = bytes(range(256)) * (3 * 4096) + b'tail!'
    for ep in endpoints:
        for pl in ((big,), (b'A', big)):
            for ca in (None, len(pl)):
                yield (ep, 'Select', pl, ca, 'burst'), 1
    if tier == 'quick':
        for ep in endpoints:
            for pn in ('Poll', 'EPoll'):
                for pl in [(b'A', b'BCD'), (b'ABC',)]:
                    for ca in (None, len(pl)):
                        yield (ep, pn, pl, ca, 'burst'), 1
            yield (ep, 'Select', (b'ABC', b'D', b'EFG'), 3, 'burst'), 1


POLLERS = ('Select', 'Poll', 'EPoll')


def pj(program):
    return {'endpoint': program[0], 'poller': program[1], 'payloads': [('T:' + p) if isinstance(p, str) else (p.decode('latin1') if len(p) < 100 else 'BIG%d' % len(p)) for p in program[2]], 'close_after': program[3], 'mode': program[4]}


def from_json(d):
    big = bytes(range(256)) * (3 * 4096) + b'tail!'
    return (d['endpoint'], d['poller'], tuple(big if p.startswith('BIG') else (p[2:] if p.startswith('T:') else p.encode('latin1')) for p in d['payloads']), d['close_after'], d['mode'])


def signature(w, kind):
    errs = sorted({errno.errorcode.get(c[2] and 0, '') for c in []})
    devs = []
    for i, kd, c in w.env.deviations():
        devs.append(c)
    return '%s:%s' % (kind, w.program[0])


def _work(items):
    core.quiet_stderr()
    st = core.Stats()
    for program, bound in items:
        def run_one(prefix):
            w = execute(program, prefix)
            st.executions += 1
            st.transitions += w.sends
            if w.paths:
                st.interesting((pj(program), tuple(w.env.choices)))
            for p in w.paths:
                st.counters['executions_with_%s_answer' % p] += 1
            if w.closed_at is not None and 'partial' in w.paths | set(['x']) and program[3] is not None and w.env.deviations():
                st.counters['executions_with_close_deferred_behind_a_refused_or_partial_write'] += 1
            st.outcome((pj(program)['endpoint'], w.accepted if len(w.accepted) < 100 else (len(w.accepted), hash(w.accepted)), w.closed_at, tuple(w.events), tuple(w.env.choices)))
            for kind, text in w.bad:
                if kind == 'harness':
                    st.selfcheck_errors.append('%s %r' % (text, pj(program)))
                else:
                    st.fail(signature(w, kind), '%s [%r, answers %r]' % (text, pj(program), w.env.deviations()),
                            {'program': pj(program), 'choices': w.env.choices})
            if w.env.diverged:
                st.selfcheck_errors.append('replay diverged: ' + w.env.diverged)
            if len(st.samples) < 2 and len(w.env.deviations()) == 2:
                st.sample({'program': pj(program), 'answers': w.env.deviations(), 'accepted': w.accepted[:40].decode('latin1'), 'events': w.events})
            return w.env
        e3.explore(run_one, bound)
    return st


def run(tier, seed, workers):
    items = list(programs(tier))
    import random
    random.Random(seed + 3).shuffle(items)
    st = core.parallel_items(_work, items, workers, chunk=max(1, len(items) // (workers * 8)))
    a = execute(items[0][0], [])
    b = execute(items[0][0], [])
    if (a.accepted, a.events, a.env.choices) != (b.accepted, b.events, b.env.choices):
        st.selfcheck_errors.append('determinism: two runs differ')
    st.states = len(st.outcomes)
    st.bounds = {'programs': len(items), 'max_deviations': max(b for _, b in items), 'payload_lengths': [0, 1, 3],
                 'max_writes': 2 if tier == 'quick' else 3}
    for c in ('executions_with_transient_answer', 'executions_with_partial_answer', 'executions_with_fatal_answer'):
        if not st.counters[c]:
            st.selfcheck_errors.append('vacuity: ' + c)
    return st


def replay(wj):
    program = from_json(wj['program'])
    w = execute(program, wj['choices'])
    text = 'program %r\nOS answers (non-default): %r\naccepted %r closed_at %r events %r\n' % (
        pj(program), w.env.deviations(), w.accepted, w.closed_at, w.events)
    text += ''.join('VIOLATED %s: %s\n' % b for b in w.bad) or 'all clauses hold\n'
    return (not w.bad), text
