"""C16 - static files: only contents from inside the document root, exact byte ranges.

Engine E4.  Two exhaustively enumerated input spaces, each element executed on a fresh real component tree:

* paths   every sequence of <= n segments from an alphabet of hostile and benign segments, for every mount of the
          Static dispatcher, through three front ends: (http) request bytes -> real HTTP component -> Static,
          (direct) a `request` event carrying Request.path, (wsgi) wsgi.Application + Static called with PATH_INFO.
* ranges  every Range header of the grammar unit x spec(,spec)? against files of 0, 1, 10 and 100 bytes.

The oracle is a reference written from the statement: an in-memory model of the fixture tree (never the OS), one
unquote, posixpath.normpath, containment in the docroot; RFC 7233 arithmetic for ranges.  Fixture files live in a
fresh tempfile.mkdtemp() directory that is removed after the run.
"""
import html
import io
import itertools
import os
import posixpath
import re
import shutil
import socket
import sys
import tempfile
from urllib.parse import quote, unquote

from circuits import BaseComponent, handler
from circuits.net.events import read
from circuits.web import wrappers
from circuits.web.dispatchers import Dispatcher, Static
from circuits.web.events import request as request_event
from circuits.web.headers import Headers
from circuits.web.http import HTTP
from circuits.web.wsgi import Application

from mc import core

PROPERTY = 'C16'
LEVEL = 'model_checking'
RULE = ('paths: every sequence of 0..n segments (n = 3 quick / 4 thorough) over the 17-segment alphabet {.., ., empty, a.txt, sub, '
        'b.txt, %2e%2e, %252e%252e, ..%2f, %2e%2e%2f, ..\\, %5c.., secret.txt, docroot-extra, leak.txt, sp%20ace.txt, '
        '%2f-encoded absolute path of the secret} x mount (none, "/", "/static" with the segments after "/static/" and glued to '
        '"/static") x dirlisting x front end (HTTP bytes, direct request event, WSGI application); ranges: unit {bytes=, items=, '
        'no "="} x one or two specs "a-b" with a, b in {empty, 0, 1, 5, 9, 10, 11, 100, x, -1, backslash} x file size {0, 1, 10, 100} x front end; positions of 19 to 6000 digits (first, last, suffix, reversed, in a list) '
        '(quick: two-spec headers only with unit bytes on the 10-byte file through HTTP; glued mount, mount "/" and dirlisting off with one '
        'segment less); '
        'each element executed once on fresh HTTP/Static/Dispatcher objects driven by tick(); a case is non-trivial when its path '
        'contains a dot, encoded, backslash or empty segment (paths) or when the header is not a single satisfiable in-bounds '
        'bytes spec (ranges); distinct = distinct (front end, configuration, input)')
ASSUMPTIONS = [
    'POSIX file system without symbolic links inside the fixture; backslash is an ordinary file-name character',
    'reference normalisation = strip the mount, unquote once, posixpath.normpath below the docroot (an absolute or dotted result '
    'outside the docroot denotes nothing that may be served)',
    'any 3xx or 4xx answer counts as "not-found/redirect" (403 or 400 for a traversal attempt are refusals too); 5xx never does',
    'the WSGI front end is given PATH_INFO exactly as enumerated (no server-side decoding in front of it)',
    'a 200 answer carrying the whole file is accepted for every Range header (RFC 7233: a server may ignore Range); for headers with '
    'two specs 416 is accepted as well and a 206 is judged part by part (exact bytes, union = union of the satisfiable specs)',
    'stat()/exists() calls outside the docroot are counted, not judged (they do not reach the answer); open()/listdir() outside are judged',
    'request methods other than GET, If-Range/If-Modified-Since and TLS are not explored',
]

HORIZON = 300
MARK = b'C16MARK'          # inside the contents of every file outside the docroot
NAMEMARK = 'C16NAME'       # inside the names of files outside the docroot that no enumerated path mentions
ABS = '<abs-secret>'       # placeholder segment: %2f-encoded absolute path of parent/secret.txt

SEGMENTS = ['..', '.', '', 'a.txt', 'sub', 'b.txt', '%2e%2e', '%252e%252e', '..%2f', '%2e%2e%2f', '..\\', '%5c..',
            'secret.txt', 'docroot-extra', 'leak.txt', 'sp%20ace.txt', ABS]
BENIGN = {'a.txt', 'sub', 'b.txt', 'sp%20ace.txt', 'secret.txt', 'docroot-extra', 'leak.txt'}
RANGE_SIZES = (0, 1, 10, 100)
RANGE_BIG = 20000
RANGE_BIG_SPECS = ('100-5099', '0-4095', '0-4096', '4095-8192', '4096-8191', '1-19998', '-5000', '-4097', '15000-', '12000-25000',
                   '0-0', '19999-19999', '0-4095,8192-12287', '100-5099,15000-')
RANGE_VALUES = ('', '0', '1', '5', '9', '10', '11', '100', 'x', '-1', '\\')      # (the last one: a backslash)
RANGE_UNITS = ('bytes=', 'items=', '')
# positions far beyond any file (and beyond what int() converts without complaint: 4300 digits)
RANGE_HUGE = tuple('9' * n for n in (19, 40, 400, 4300, 4301, 6000))


# ---------------------------------------------------------------------------------------------
# fixture: real files + the in-memory model of them that the oracle reads


class Fixture:
    def __init__(self):
        self.tmp = os.path.realpath(tempfile.mkdtemp(prefix='c16_static_'))
        assert not self.tmp.startswith(('/repo', '/verif'))
        self.parent = os.path.join(self.tmp, 'parent')
        self.docroot = os.path.join(self.parent, 'docroot')
        self.files = {}     # absolute path -> bytes
        self.dirs = set()
        for d in ('', 'parent', 'parent/docroot', 'parent/docroot/sub', 'parent/docroot-extra'):
            p = os.path.join(self.tmp, d) if d else self.tmp
            os.makedirs(p, exist_ok=True)
            self.dirs.add(p)
        w = self._write
        w('%s-top.dat' % NAMEMARK, MARK + b' top level file')
        w('parent/secret.txt', MARK + b' the secret in the parent directory')
        w('parent/index.html', b'<html>' + MARK + b' index of the parent directory</html>')
        w('parent/%s-parent.dat' % NAMEMARK, MARK + b' second file in the parent directory')
        w('parent/docroot-extra/leak.txt', MARK + b' file in the sibling whose name extends the docroot name')
        w('parent/docroot-extra/%s-extra.dat' % NAMEMARK, MARK + b' second file in the sibling')
        w('parent/docroot/index.html', b'<html>docroot index page</html>')
        w('parent/docroot/a.txt', b'content of a.txt 0123456789\n')
        w('parent/docroot/sub/b.txt', b'content of sub/b.txt\n')
        w('parent/docroot/sp ace.txt', b'content of the file with a space\n')
        for n in RANGE_SIZES:
            w('parent/docroot/r%d.bin' % n, bytes(33 + (i * 7) % 90 if i % 10 else 65 + i // 10 for i in range(n)))
        # one file larger than the 4 KiB chunks a file body is read in (ranges spanning several chunks)
        w('parent/docroot/r%d.bin' % RANGE_BIG, bytes((i * 7 + i // 251) % 251 for i in range(RANGE_BIG)))

    def _write(self, rel, data):
        p = os.path.join(self.tmp, rel)
        with open(p, 'wb') as f:
            f.write(data)
        self.files[p] = data

    def remove(self):
        shutil.rmtree(self.tmp, ignore_errors=True)

    def abs_segment(self):
        return quote(os.path.join(self.parent, 'secret.txt'), safe='')

    def listdir(self, d):
        pre = d.rstrip('/') + '/'
        names = set()
        for p in list(self.files) + list(self.dirs):
            if p.startswith(pre):
                names.add(p[len(pre):].split('/')[0])
        return sorted(names)

    def where(self, target):
        """classify a normalised absolute path relative to the docroot"""
        if target == self.docroot or target.startswith(self.docroot + '/'):
            return 'inside'
        if target.startswith(self.docroot):
            return 'sibling-extending-docroot-name'
        if target == self.parent or target.startswith(self.parent + '/'):
            return 'parent-dir'
        return 'above-parent'


# ---------------------------------------------------------------------------------------------
# observation of file-system accesses while a request is served (audit hook + os.stat wrapper; process-wide, installed once)

_WATCH = {'active': False, 'root': None, 'opens': [], 'stats': 0, 'docroot': None}
_installed = False


def _outside(path):
    w = _WATCH
    if isinstance(path, bytes):
        path = os.fsdecode(path)
    if not isinstance(path, str):
        return None
    p = os.path.normpath(path)
    if not (p == w['root'] or p.startswith(w['root'] + os.sep)):
        return None      # not a fixture path at all (python's own files, tracebacks reading sources ...)
    if p == w['docroot'] or p.startswith(w['docroot'] + os.sep):
        return None
    return p


def _audit(event, args):
    if not _WATCH['active']:
        return
    if event in ('open', 'os.listdir', 'os.scandir'):
        try:
            p = _outside(args[0] if args else None)
        except Exception:  # noqa: BLE001 - an audit hook must never raise into the audited code
            p = None
        if p is not None:
            _WATCH['opens'].append((event, p))


def install_watch():
    global _installed
    if _installed:
        return
    _installed = True
    sys.addaudithook(_audit)
    real_stat = os.stat

    def stat(path, *a, **k):
        if _WATCH['active']:
            try:
                if _outside(path) is not None:
                    _WATCH['stats'] += 1
            except Exception:  # noqa: BLE001
                pass
        return real_stat(path, *a, **k)

    os.stat = stat


class Hang(Exception):
    pass


# ---------------------------------------------------------------------------------------------
# harness: real HTTP + Static (+ Dispatcher) under a stub server; one socketpair per process as connection token


class _Server(BaseComponent):
    channel = 'web'
    host = '127.0.0.1'
    port = 8000
    secure = False
    display_banner = False


class _WsgiFirst(BaseComponent):
    """Application.on_response and HTTP._on_response both handle `response` with priority 0 on channel web, so which of them
    runs first is unspecified (set order); if HTTP's runs first a file body is streamed into `write` events and the iterable handed to
    the WSGI server is empty.  That is not C16's subject: this handler does what Application.on_response does, before both."""
    channel = 'web'

    def init(self, app):
        self.app = app

    @handler('response', priority=1.0)
    def _c16_response(self, event, *args):
        self.app._finished = True
        event.stop()


class _CountingApplication(Application):
    """wsgi.Application unchanged; its private `while not finished: tick()` loop gets a deterministic horizon"""

    _c16_ticks = 0

    def tick(self, timeout=-1):
        self._c16_ticks += 1
        if self._c16_ticks > 10 * HORIZON:
            raise Hang()
        return super().tick(timeout)


class _Probe(BaseComponent):
    channel = 'web'

    def init(self):
        self.out = []
        self.closed = 0

    @handler('write', priority=100)
    def _c16_write(self, sock, data):
        self.out.append(data)

    @handler('close', priority=100)
    def _c16_close(self, *args):
        self.closed += 1


_SOCK = []


def _sock():
    if not _SOCK:
        _SOCK.extend(socket.socketpair())
    return _SOCK[0]


def _settle(root):
    for n in range(HORIZON):
        if len(root) == 0 and not getattr(root, '_tasks', None):
            return n
        root.tick()
    return None


def parse_wire(data):
    """Independent, tolerant decoding of the bytes written for one response.
    -> dict(status, headers{lower: value}, body, clen_ok, problems[])"""
    res = {'status': None, 'headers': {}, 'body': b'', 'problems': [], 'raw': data, 'length_problem': None}
    head, sep, rest = data.partition(b'\r\n\r\n')
    if not sep:
        res['problems'].append('no header terminator')
        return res
    lines = head.split(b'\r\n')
    m = re.match(rb'^HTTP/1\.[01] (\d{3})(?: .*)?$', lines[0])
    if not m:
        res['problems'].append('bad status line %r' % lines[0][:60])
        return res
    res['status'] = int(m.group(1))
    for ln in lines[1:]:
        k, c, v = ln.partition(b':')
        if not c:
            res['problems'].append('bad header line %r' % ln[:60])
            continue
        res['headers'][k.decode('latin-1').strip().lower()] = v.decode('latin-1').strip()
    h = res['headers']
    if h.get('transfer-encoding', '').lower() == 'chunked':
        body = b''
        pos = 0
        while True:
            eol = rest.find(b'\r\n', pos)
            if eol < 0:
                res['problems'].append('chunked body not terminated')
                break
            try:
                size = int(rest[pos:eol].split(b';')[0], 16)
            except ValueError:
                res['problems'].append('bad chunk size')
                break
            if size == 0:
                if rest[eol + 2:] not in (b'\r\n', b''):
                    res['problems'].append('bytes after the last chunk')
                break
            chunk = rest[eol + 2:eol + 2 + size]
            if len(chunk) != size or rest[eol + 2 + size:eol + 4 + size] != b'\r\n':
                res['problems'].append('chunk shorter than announced')
                body += chunk
                break
            body += chunk
            pos = eol + 4 + size
        res['body'] = body
    else:
        res['body'] = rest
        if 'content-length' in h:
            try:
                if int(h['content-length']) != len(rest):
                    res['length_problem'] = 'Content-Length %s but %d body bytes written' % (h['content-length'], len(rest))
            except ValueError:
                res['length_problem'] = 'Content-Length %r is not a number' % h['content-length']
    return res


def run_http(fx, mount, dirlisting, target, extra_headers=(), proto='1.1', direct=False):
    """front ends `http` (request bytes through HTTP._on_read) and `direct` (a request event with Request.path set)"""
    srv = _Server()
    srv.http = HTTP(srv).register(srv)
    Dispatcher().register(srv)
    Static(mount, docroot=fx.docroot, dirlisting=dirlisting).register(srv)
    probe = _Probe().register(srv)
    _settle(srv)
    sock = _sock()
    crashed = None
    _WATCH.update(active=True, opens=[], stats=0)
    try:
        if direct:
            hdrs = Headers([('Host', 'h')] + list(extra_headers))
            req = wrappers.Request(sock, 'GET', 'http', target, tuple(int(x) for x in proto.split('.')), '', headers=hdrs, server=srv)
            res = wrappers.Response(req)
            srv.fire(request_event(req, res))
        else:
            raw = 'GET %s HTTP/%s\r\nHost: h\r\n' % (target, proto)
            for k, v in extra_headers:
                raw += '%s: %s\r\n' % (k, v)
            srv.fire(read(sock, (raw + '\r\n').encode('latin-1')))
        ticks = _settle(srv)
    except BaseException as exc:  # noqa: BLE001 - an exception escaping tick() is a verdict
        crashed = repr(exc)
        ticks = -1
    finally:
        _WATCH['active'] = False
    obs = parse_wire(b''.join(probe.out))
    obs['opens'] = list(_WATCH['opens'])
    obs['stats_outside'] = _WATCH['stats']
    if crashed:
        obs['problems'].append('exception escaped tick(): %s' % crashed)
    elif ticks is None:
        obs['problems'].append('no quiescence within %d ticks' % HORIZON)
    elif not probe.out:
        obs['problems'].append('no response written')
    return obs


def run_http_pair(fx, first, second):
    """two requests, one after the other, on one keep-alive connection (front end `http`); each is (target, extra headers).
    -> (bytes written for the first, bytes written for the second, problems)"""
    srv = _Server()
    srv.http = HTTP(srv).register(srv)
    Dispatcher().register(srv)
    Static(None, docroot=fx.docroot, dirlisting=False).register(srv)
    probe = _Probe().register(srv)
    _settle(srv)
    sock = socket.socketpair()
    outs = []
    problems = []
    try:
        for target, extra in (first, second):
            raw = 'GET %s HTTP/1.1\r\nHost: h\r\n' % target
            for k, v in extra:
                raw += '%s: %s\r\n' % (k, v)
            before = len(probe.out)
            srv.fire(read(sock[0], (raw + '\r\n').encode('latin-1')))
            if _settle(srv) is None:
                problems.append('no quiescence')
            outs.append(b''.join(probe.out[before:]))
    except BaseException as exc:  # noqa: BLE001
        problems.append('exception escaped tick(): %r' % (exc,))
    finally:
        for x in sock:
            x.close()
    while len(outs) < 2:
        outs.append(b'')
    return outs[0], outs[1], problems


PAIR_REQUESTS = [('/r0.bin', ()), ('/r1.bin', ()), ('/r10.bin', ()), ('/r10.bin', (('Range', 'bytes=2-5'),)), ('/r100.bin', (('Range', 'bytes=-10'),)),
                 ('/r100.bin', (('Range', 'bytes=0-0,5-9'),)), ('/r0.bin', (('Range', 'bytes=0-'),)), ('/a.txt', ())]


def _strip_date(b):
    # (also the random multipart boundary)
    return re.sub(rb'=+\d+==', b'BOUNDARY', re.sub(rb'\r\n(Date|Last-Modified): [^\r]*', b'', b))


def _pair_work(part, nparts, payload):
    tier, seed, fx = payload
    st = core.Stats()
    idx = -1
    for first in PAIR_REQUESTS:
        for second in PAIR_REQUESTS:
            idx += 1
            if idx % nparts != part:
                continue
            o1, o2, problems = run_http_pair(fx, first, second)
            alone, _x, p2 = run_http_pair(fx, second, second)
            st.executions += 2
            st.counters['keep_alive_pairs'] += 1
            st.interesting(('pair', first, second))
            st.outcome(('pair', first, second, _strip_date(o2)[:200]))
            wit = {'kind': 'pair', 'first': [first[0], [list(h) for h in first[1]]], 'second': [second[0], [list(h) for h in second[1]]]}
            if problems:
                st.fail('pair:problem', '%s  [keep-alive pair %r then %r]' % ('; '.join(problems), first, second), wit)
            elif b'Connection: close' not in o1 and _strip_date(o2) != _strip_date(alone):
                st.fail('pair:second-answer-differs', 'on one keep-alive connection, after %r the request %r is answered with %r...; sent as the first '
                        'request of a connection it is answered with %r...' % (first, second, _strip_date(o2)[:120], _strip_date(alone)[:120]), wit)
    return st


def run_wsgi(fx, mount, dirlisting, target, extra_headers=(), proto='1.1'):
    """front end `wsgi`: wsgi.Application + Static, PATH_INFO handed over as is (never passes HTTP._on_read's guard)"""
    app = _CountingApplication()
    Static(mount, docroot=fx.docroot, dirlisting=dirlisting).register(app)
    _WsgiFirst(app).register(app)
    _settle(app)
    environ = {'REQUEST_METHOD': 'GET', 'SERVER_PROTOCOL': 'HTTP/' + proto, 'wsgi.url_scheme': 'http', 'PATH_INFO': target,
               'QUERY_STRING': '', 'SCRIPT_NAME': '', 'REMOTE_ADDR': '127.0.0.1', 'HTTP_HOST': 'h', 'wsgi.input': io.BytesIO(b'')}
    for k, v in extra_headers:
        environ['HTTP_' + k.upper().replace('-', '_')] = v
    got = {}

    def start_response(status, headers, exc_info=None):
        got['status'] = status
        got['headers'] = headers

    obs = {'status': None, 'headers': {}, 'body': b'', 'problems': [], 'raw': b'', 'length_problem': None}
    _WATCH.update(active=True, opens=[], stats=0)
    try:
        body = app(environ, start_response)
        parts = []
        for s in ([body] if isinstance(body, (bytes, str)) else body):
            if s is not None:
                parts.append(s if isinstance(s, bytes) else s.encode('utf-8'))
        obs['body'] = b''.join(parts)
        if hasattr(body, 'close'):
            body.close()
    except Hang:
        obs['problems'].append('the application never produced a response (%d ticks)' % (10 * HORIZON))
    except BaseException as exc:  # noqa: BLE001
        obs['problems'].append('exception escaped the WSGI call: %r' % (exc,))
    finally:
        _WATCH['active'] = False
    if 'status' in got:
        m = re.match(r'^(\d{3})', got['status'])
        obs['status'] = int(m.group(1)) if m else None
        for k, v in got['headers']:
            obs['headers'][k.lower()] = str(v)
        obs['raw'] = repr(got['headers']).encode('utf-8', 'replace') + obs['body']
        h = obs['headers']
        if 'content-length' in h and h.get('transfer-encoding', '').lower() != 'chunked':
            try:
                if int(h['content-length']) != len(obs['body']):
                    obs['length_problem'] = 'Content-Length %s but %d body bytes returned' % (h['content-length'], len(obs['body']))
            except ValueError:
                obs['length_problem'] = 'Content-Length %r is not a number' % h['content-length']
    elif not obs['problems']:
        obs['problems'].append('start_response never called')
    obs['opens'] = list(_WATCH['opens'])
    obs['stats_outside'] = _WATCH['stats']
    return obs


def run_frontend(fx, fe, mount, dirlisting, target, extra_headers=(), proto='1.1'):
    if fe == 'wsgi':
        return run_wsgi(fx, mount, dirlisting, target, extra_headers, proto)
    return run_http(fx, mount, dirlisting, target, extra_headers, proto, direct=(fe == 'direct'))


# ---------------------------------------------------------------------------------------------
# part 1: paths


def path_cases(tier):
    """yield (mount, glue, dirlisting, segs)   -- the front end is the innermost dimension, added by the worker"""
    maxn = 3 if tier == 'quick' else 4
    if tier == 'quick':
        configs = [(None, False, True, maxn), ('/static', False, True, maxn), ('/static', True, True, 2),
                   ('/', False, True, 2), (None, False, False, 2)]
    else:
        configs = [(None, False, True, maxn), ('/static', False, True, maxn), ('/static', True, True, 3),
                   ('/', False, True, 3), (None, False, False, 3), ('/static', False, False, 3)]
    for mount, glue, dirlisting, n in configs:
        for k in range(0, n + 1):
            for segs in itertools.product(range(len(SEGMENTS)), repeat=k):
                yield mount, glue, dirlisting, segs


FRONTENDS = ('http', 'direct', 'wsgi')


def build_target(fx, mount, glue, segs):
    names = [fx.abs_segment() if SEGMENTS[i] == ABS else SEGMENTS[i] for i in segs]
    tail = '/'.join(names)
    if mount in (None, '/'):
        return '/' + tail
    return mount + ('' if glue else '/') + tail


def denote(fx, mount, target, dirlisting):
    """What may be served for this request path, from the statement.
    -> (where, kind, payload): kind in {'refuse', 'file', 'listing'}; payload = bytes | directory path"""
    if mount is not None:
        if not target.startswith(mount):
            return 'not-under-mount', 'refuse', None
        rest = target[len(mount):]
    else:
        rest = target
    t = posixpath.normpath(fx.docroot + '/' + unquote(rest))
    where = fx.where(t)
    if where != 'inside':
        return where, 'refuse', None
    if t in fx.files:
        return where, 'file', fx.files[t]
    if t in fx.dirs:
        for d in ('index.html', 'index.xhtml'):
            if t + '/' + d in fx.files:
                return where, 'file', fx.files[t + '/' + d]
        if dirlisting:
            return where, 'listing', t
    return where, 'refuse', None


def outside_target(fx, mount, target):
    """where the path would lead if it were resolved naively (only used to classify a failure)"""
    rest = target[len(mount):] if mount is not None and target.startswith(mount) else target
    rel = unquote(rest.strip('/'))
    t = posixpath.normpath(posixpath.join(fx.docroot, rel))
    t2 = posixpath.normpath(posixpath.join(fx.docroot, unquote(rel)))
    for cand in (t, t2):
        if fx.where(cand) != 'inside':
            return fx.where(cand)
    return 'inside'


def judge_path(fx, fe, mount, dirlisting, target, obs):
    """-> list of (signature, text)"""
    bad = []
    guard = 'behind-http' if fe == 'http' else 'path-handed-over'
    where, kind, payload = denote(fx, mount, target, dirlisting)
    cls = where if where != 'inside' else outside_target(fx, mount, target)
    lead = 'leading-empty-segment' if target.startswith('//') else cls     # class used when nothing from outside is involved
    st = obs['status']
    body = obs['body']
    if obs['problems']:
        bad.append(('path:%s:%s:broken-response' % (guard, cls), '; '.join(obs['problems'])))
    if MARK in obs['raw'] or MARK in body:
        which = [p[len(fx.tmp):] for p, c in fx.files.items() if len(c) >= 8 and c in body]
        bad.append(('path:%s:%s:contents-from-outside-the-docroot' % (guard, cls),
                    'the answer (status %s) carries the contents of %s' % (st, which or 'a file outside the docroot')))
    elif NAMEMARK.encode() in obs['raw'] or NAMEMARK.encode() in body:
        bad.append(('path:%s:%s:listing-of-a-directory-outside-the-docroot' % (guard, cls),
                    'the answer (status %s) names files that live outside the docroot' % st))
    if obs['opens']:
        ev = sorted({(e, p[len(fx.tmp):]) for e, p in obs['opens']})
        bad.append(('path:%s:%s:opened-outside-the-docroot' % (guard, cls), 'while serving the request: %r' % (ev,)))
    if st is None:
        return bad
    if st >= 500:
        bad.append(('path:%s:%s:internal-error' % (guard, cls), 'status %d' % st))
    elif 200 <= st < 300:
        if obs['length_problem']:
            bad.append(('path:%s:%s:length-announced-differs-from-bytes-sent' % (guard, cls), obs['length_problem']))
        if kind == 'file':
            if st != 200 or body != payload:
                bad.append(('path:%s:%s:wrong-contents' % (guard, lead),
                            'status %d, body %r..., the path denotes a file with contents %r...' % (st, body[:40], payload[:40])))
        elif kind == 'listing':
            names = fx.listdir(payload)
            text = body.decode('utf-8', 'replace')
            missing = [n for n in names if html.escape(n) not in text and n not in text]
            foreign = [n for n in ('a.txt', 'index.html', 'secret.txt', 'leak.txt', 'docroot-extra', 'r10.bin')
                       if n not in names and ('>%s<' % n in text or '>%s/<' % n in text)]
            if missing or foreign or any(c in body for c in fx.files.values() if len(c) >= 8):
                bad.append(('path:%s:%s:wrong-listing' % (guard, lead),
                            'listing of %s lacks %r / names foreign entries %r' % (payload[len(fx.tmp):], missing, foreign)))
        else:
            if not any(s[0].endswith('outside-the-docroot') for s in bad):
                bad.append(('path:%s:%s:answered-instead-of-not-found' % (guard, lead),
                            'status %d with body %r... although the path denotes nothing inside the docroot' % (st, body[:40])))
    elif not 300 <= st < 500:
        bad.append(('path:%s:%s:odd-status' % (guard, cls), 'status %d' % st))
    return bad


def path_obs(fe, mount, glue, dirlisting, obs):
    st = obs['status']
    body = obs['body']
    return (fe, mount, glue, dirlisting, st, len(body) if st and 200 <= st < 300 else 0, bool(obs['opens']),
            obs['stats_outside'] > 0, tuple(obs['problems']))


def path_witness(fe, mount, glue, dirlisting, segs):
    return {'kind': 'path', 'frontend': fe, 'mount': mount, 'glue': glue, 'dirlisting': dirlisting,
            'segments': [SEGMENTS[i] for i in segs]}


def _path_work(part, nparts, payload):
    tier, seed, fx = payload
    core.quiet_stderr()
    install_watch()
    _WATCH.update(root=fx.tmp, docroot=fx.docroot)
    st = core.Stats()
    for idx, (mount, glue, dirlisting, segs) in enumerate(itertools.islice(path_cases(tier), part, None, nparts)):
        target = build_target(fx, mount, glue, segs)
        hostile = any(SEGMENTS[i] not in BENIGN for i in segs)
        where, kind, _p = denote(fx, mount, target, dirlisting)
        for fe in FRONTENDS:
            obs = run_frontend(fx, fe, mount, dirlisting, target)
            st.executions += 1
            st.transitions += 1
            st.outcome(path_obs(fe, mount, glue, dirlisting, obs))
            case = (fe, mount, glue, dirlisting, segs)
            if hostile:
                st.interesting(case)
            s = obs['status']
            if where != 'inside':
                st.counters['paths_denoting_something_outside_the_docroot'] += 1
                if where == 'sibling-extending-docroot-name':
                    st.counters['paths_into_the_sibling_extending_the_docroot_name'] += 1
                if fe != 'http' and s is not None and 300 <= s < 500:
                    st.counters['outside_paths_refused_without_the_http_guard'] += 1
            if s is not None and 300 <= s < 400:
                st.counters['redirects'] += 1
            if s == 200 and kind == 'file':
                st.counters['files_served_from_inside'] += 1
                if hostile:
                    st.counters['files_served_for_a_path_with_hostile_segments'] += 1
            if s == 200 and kind == 'listing':
                st.counters['listings_served'] += 1
            if obs['stats_outside']:
                st.counters['executions_with_stat_outside_docroot_(not_judged)'] += 1
            bad = judge_path(fx, fe, mount, dirlisting, target, obs)
            if part == seed % nparts and idx in (5, 300) and fe == FRONTENDS[(seed + idx) % 3]:
                st.sample({'case': path_witness(fe, mount, glue, dirlisting, segs), 'request_path': target.replace(fx.tmp, '<tmp>'),
                           'status': s, 'body': repr(obs['body'][:60]), 'reference': [where, kind]})
            for sig, text in bad:
                st.fail(sig, '%s  [front end %s, mount %r, request path %r, status %s]'
                        % (text, fe, mount, target.replace(fx.tmp, '<tmp>').replace(quote(fx.tmp, safe=''), '<tmp>'), s),
                        path_witness(fe, mount, glue, dirlisting, segs))
    return st


# ---------------------------------------------------------------------------------------------
# part 2: ranges


def range_specs():
    seen = []
    for a in RANGE_VALUES:
        for b in RANGE_VALUES:
            s = '%s-%s' % (a, b)
            if s not in seen:
                seen.append(s)
    return seen


def range_cases(tier):
    """yield (frontend, proto, size, header value)"""
    specs = range_specs()
    singles = [(u, s) for u in RANGE_UNITS for s in specs]
    for size in RANGE_SIZES:
        for u, s in singles:
            for fe in FRONTENDS:
                yield fe, '1.1', size, u + s
    pair_units = ('bytes=',) if tier == 'quick' else RANGE_UNITS
    pair_sizes = (10,) if tier == 'quick' else RANGE_SIZES
    for size in pair_sizes:
        for u in pair_units:
            for s1 in specs:
                for s2 in specs:
                    yield 'http', '1.1', size, '%s%s,%s' % (u, s1, s2)
                    if tier != 'quick' and u == 'bytes=':
                        yield 'direct', '1.1', size, '%s%s,%s' % (u, s1, s2)
    for s in RANGE_BIG_SPECS:
        for fe in FRONTENDS:
            yield fe, '1.1', RANGE_BIG, 'bytes=' + s
    for h in RANGE_HUGE:
        for s in ('0-' + h, '5-' + h, h + '-', '-' + h, h + '-5', h + '-' + h, '0-1,5-' + h, '-' + h + ',2-3'):
            for size in (0, 10):
                for fe in FRONTENDS:
                    yield fe, '1.1', size, 'bytes=' + s
    # HTTP/1.0 knows no ranges: the header is ignored or honoured correctly, same oracle
    for size in RANGE_SIZES:
        for s in specs:
            yield 'http', '1.0', size, 'bytes=' + s
    if tier != 'quick':
        for size in (10, 100):
            for s1 in specs:
                for s2 in specs:
                    yield 'http', '1.1', size, 'bytes=%s, %s' % (s1, s2)


_SPEC = re.compile(r'^(?:(\d+)-(\d*)|-(\d+))$')


def _num(digits):
    """value of a position for comparisons with file sizes and with each other; written without int() of an unbounded digit
    string (Python refuses more than 4300 digits): anything above 30 digits is 'huge', ordered by its length"""
    t = digits.lstrip('0') or '0'
    return int(t) if len(t) <= 30 else 10 ** 30 + len(t)


def reference_ranges(value, size):
    """RFC 7233 reading of a Range header value.
    -> (klass, ranges): klass in 'other-unit' | 'no-equals' | 'malformed-spec' | 'reversed' | 'unsatisfiable' | 'ok';
    ranges = inclusive (first, last) of every satisfiable spec (only for 'ok')"""
    if '=' not in value:
        return 'no-equals', []
    unit, _, rest = value.partition('=')
    if unit.strip().lower() != 'bytes':
        return 'other-unit', []
    out = []
    for spec in rest.split(','):
        m = _SPEC.match(spec.strip())
        if not m:
            return 'malformed-spec', []
        if m.group(3) is not None:
            n = _num(m.group(3))
            if n > 0 and size > 0:
                out.append((max(0, size - n), size - 1))
        else:
            first = _num(m.group(1))
            last = _num(m.group(2)) if m.group(2) else None
            if last is not None and last < first:
                return 'reversed', []
            if first < size:
                out.append((first, size - 1 if last is None else min(last, size - 1)))
    if not out:
        return 'unsatisfiable', []
    return 'ok', out


def spec_class(value, size):
    """classification of the header used in failure signatures"""
    klass, ranges = reference_ranges(value, size)
    if klass != 'ok' and klass != 'unsatisfiable':
        if klass == 'malformed-spec':
            rest = value.partition('=')[2]
            if any('x' in s for s in rest.split(',')):
                return 'non-numeric-position'
            if any(s.strip() == '-' for s in rest.split(',')):
                return 'empty-spec'
            return 'extra-minus-sign'
        return klass
    multi = ',' in value
    rest = value.partition('=')[2]
    tags = set()
    for spec in rest.split(','):
        m = _SPEC.match(spec.strip())
        if m.group(3) is not None:
            n = _num(m.group(3))
            tags.add('suffix-of-zero-bytes' if n == 0 else 'suffix-longer-than-the-file' if n > size else 'suffix')
        else:
            first = _num(m.group(1))
            last = _num(m.group(2)) if m.group(2) else None
            if first >= size:
                tags.add('first-position-beyond-the-end')
            elif last is not None and last >= size:
                tags.add('last-position-beyond-the-end')
            else:
                tags.add('in-bounds')
    if size == 0:
        return ('two-specs:' if multi else '') + 'empty-file'
    # two specs: the signature names the more demanding one (the list is ordered by how far the spec leaves the file)
    for tag in ('suffix-longer-than-the-file', 'suffix-of-zero-bytes', 'last-position-beyond-the-end', 'first-position-beyond-the-end',
                'suffix', 'in-bounds'):
        if tag in tags:
            return ('two-specs:' if multi else '') + tag
    raise AssertionError(tags)


_CR = re.compile(r'^bytes (\d+)-(\d+)/(\d+|\*)$')


def split_multipart(body, ctype):
    """-> list of (content-range value, part body) or None if the body is not a well-formed multipart/byteranges"""
    m = re.search(r'boundary="?([^";, ]+)"?', ctype)
    if not m:
        return None
    delim = b'--' + m.group(1).encode('latin-1')
    pieces = body.split(delim)
    if len(pieces) < 3 or pieces[0].strip(b'\r\n') != b'' or not pieces[-1].startswith(b'--'):
        return None
    parts = []
    for piece in pieces[1:-1]:
        if not piece.startswith(b'\r\n') or not piece.endswith(b'\r\n'):
            return None
        head, sep, data = piece[2:-2].partition(b'\r\n\r\n')
        if not sep:
            return None
        cr = None
        for ln in head.split(b'\r\n'):
            k, _, v = ln.partition(b':')
            if k.strip().lower() == b'content-range':
                cr = v.decode('latin-1').strip()
        if cr is None:
            return None
        parts.append((cr, data))
    return parts


def judge_range(fx, fe, size, value, obs):
    bad = []
    data = fx.files[os.path.join(fx.docroot, 'r%d.bin' % size)]
    klass, ranges = reference_ranges(value, size)
    cls = spec_class(value, size)
    multi = ',' in value
    st = obs['status']
    body = obs['body']
    h = obs['headers']

    def fail(effect, text):
        bad.append(('range:%s:%s' % (cls, effect), text))

    if obs['problems']:
        fail('broken-response', '; '.join(obs['problems']))
    if obs['length_problem'] and st in (200, 206):
        fail('%d-length-announced-differs-from-bytes-sent' % st, obs['length_problem'])
    if obs['opens']:
        fail('opened-outside-the-docroot', repr(obs['opens'][:3]))
    if st is None:
        return bad
    if st >= 500:
        fail('internal-error', 'status %d' % st)
    elif st == 200:
        if body != data:
            fail('200-without-the-whole-file', 'status 200 with %d of %d bytes' % (len(body), len(data)))
    elif st == 416:
        if klass == 'ok' and not multi:
            fail('416-for-a-satisfiable-range', 'satisfiable: %r' % (ranges,))
        if klass == 'other-unit':
            fail('416-for-an-unknown-unit', 'RFC 7233 3.1: a Range header with an unknown unit must be ignored')
        cr = h.get('content-range')
        if cr is not None and cr != 'bytes */%d' % size:
            fail('416-with-wrong-content-range', 'Content-Range %r, file has %d bytes' % (cr, size))
    elif st == 206:
        if klass != 'ok':
            fail('206-for-%s' % ('an-unsatisfiable-range' if klass == 'unsatisfiable' else 'a-header-that-must-be-ignored'),
                 'reference reading of the header: %s; Content-Range %r, %d body bytes' % (klass, h.get('content-range'), len(body)))
            # still judge what was sent against the file: never bytes beyond it, never a lying Content-Range
        ctype = h.get('content-type', '')
        if ctype.lower().startswith('multipart/byteranges'):
            parts = split_multipart(body, ctype)
            if parts is None:
                fail('206-multipart-malformed', 'body %r...' % body[:80])
                parts = []
        else:
            parts = [(h.get('content-range'), body)]
        covered = set()
        for cr, pbody in parts:
            m = _CR.match(cr or '')
            if not m:
                fail('206-content-range-malformed', 'Content-Range %r' % (cr,))
                continue
            first, last = int(m.group(1)), int(m.group(2))
            if m.group(3) != '*' and int(m.group(3)) != size:
                fail('206-content-range-wrong-total', 'Content-Range %r, file has %d bytes' % (cr, size))
            if not (0 <= first <= last < size):
                fail('206-content-range-beyond-the-file', 'Content-Range %r, file has %d bytes' % (cr, size))
                continue
            if pbody != data[first:last + 1]:
                fail('206-body-differs-from-the-announced-bytes', 'Content-Range %r, body %r' % (cr, pbody[:40]))
            covered.update(range(first, last + 1))
        if klass == 'ok' and not any(b[0].split(':')[-1].startswith('206-') for b in bad):
            want = set()
            for f, l in ranges:
                want.update(range(f, l + 1))
            if multi:
                if covered != want:
                    fail('206-parts-do-not-cover-the-requested-bytes', 'sent %d positions, requested %d' % (len(covered), len(want)))
            else:
                f, l = ranges[0]
                if len(parts) != 1 or parts[0][1] != data[f:l + 1] or not parts[0][0].startswith('bytes %d-%d/' % (f, l)):
                    fail('206-not-the-requested-bytes', 'requested %d-%d, got Content-Range %r' % (f, l, parts[0][0] if parts else None))
    else:
        fail('odd-status', 'status %d' % st)
    return bad


def range_witness(fe, proto, size, value):
    return {'kind': 'range', 'frontend': fe, 'protocol': proto, 'size': size, 'range': value}


def _range_work(part, nparts, payload):
    tier, seed, fx = payload
    core.quiet_stderr()
    install_watch()
    _WATCH.update(root=fx.tmp, docroot=fx.docroot)
    st = core.Stats()
    for idx, (fe, proto, size, value) in enumerate(itertools.islice(range_cases(tier), part, None, nparts)):
        obs = run_frontend(fx, fe, None, False, '/r%d.bin' % size, [('Range', value)], proto)
        st.executions += 1
        st.transitions += 1
        s = obs['status']
        st.outcome((fe, proto, size, s, obs['headers'].get('content-range'), len(obs['body']), tuple(obs['problems'])))
        klass, ranges = reference_ranges(value, size)
        cls = spec_class(value, size)
        if cls != 'in-bounds':
            st.interesting((fe, proto, size, value))
        st.counters['range_headers_' + klass.replace('-', '_')] += 1
        if s == 206:
            st.counters['answers_206'] += 1
            if obs['headers'].get('content-type', '').lower().startswith('multipart/byteranges'):
                st.counters['answers_206_multipart'] += 1
        elif s == 416:
            st.counters['answers_416'] += 1
        elif s == 200:
            st.counters['answers_200_whole_file'] += 1
        if 'beyond-the-end' in cls or 'longer-than' in cls:
            st.counters['specs_reaching_beyond_the_end_of_the_file'] += 1
        if part == seed % nparts and idx in (11, 700):
            st.sample({'case': range_witness(fe, proto, size, value), 'status': s, 'content_range': obs['headers'].get('content-range'),
                       'body': repr(obs['body'][:40]), 'reference': [klass, ranges]})
        for sig, text in judge_range(fx, fe, size, value, obs):
            st.fail(sig, '%s  [front end %s, HTTP/%s, file of %d bytes, Range: %s, status %s]' % (text, fe, proto, size, value, s),
                    range_witness(fe, proto, size, value))
    return st


# ---------------------------------------------------------------------------------------------


def _work(part, nparts, payload):
    st = _path_work(part, nparts, payload)
    st.merge(_range_work(part, nparts, payload))
    st.merge(_pair_work(part, nparts, payload))
    return st


def run(tier, seed, workers):
    fx = Fixture()
    try:
        npaths = sum(1 for _ in path_cases(tier)) * len(FRONTENDS)
        nranges = sum(1 for _ in range_cases(tier))
        st = core.parallel(_work, (tier, seed, fx), workers, nparts=workers * 4)
        npairs = 2 * len(PAIR_REQUESTS) ** 2
        if st.executions != npaths + nranges + npairs:
            st.selfcheck_errors.append('enumeration: %d executions of %d cases' % (st.executions, npaths + nranges + npairs))
        # determinism: the same case twice
        install_watch()
        _WATCH.update(root=fx.tmp, docroot=fx.docroot)
        for fe in FRONTENDS:
            a = run_frontend(fx, fe, '/static', True, '/static/sub/../%2e%2e/secret.txt')
            b = run_frontend(fx, fe, '/static', True, '/static/sub/../%2e%2e/secret.txt')
            if (a['status'], a['body'], a['opens']) != (b['status'], b['body'], b['opens']):
                st.selfcheck_errors.append('determinism: two runs of one path case differ (%s)' % fe)
            a = run_frontend(fx, fe, None, False, '/r100.bin', [('Range', 'bytes=5-9,-1')])
            b = run_frontend(fx, fe, None, False, '/r100.bin', [('Range', 'bytes=5-9,-1')])
            if (a['status'], len(a['body']), a['headers'].get('content-range')) != (b['status'], len(b['body']), b['headers'].get('content-range')):
                st.selfcheck_errors.append('determinism: two runs of one range case differ (%s)' % fe)
        # harness self-test: the observer sees an access outside the docroot, the reference refuses it
        _WATCH.update(active=True, opens=[], stats=0)
        try:
            open(os.path.join(fx.parent, 'secret.txt'), 'rb').close()
            os.path.exists(os.path.join(fx.parent, 'secret.txt'))
            open(os.path.join(fx.docroot, 'a.txt'), 'rb').close()
        finally:
            _WATCH['active'] = False
        if len(_WATCH['opens']) != 1 or _WATCH['stats'] != 1:
            st.selfcheck_errors.append('observer: expected exactly one open and one stat outside, saw %r / %d' % (_WATCH['opens'], _WATCH['stats']))
        st.states = len(st.outcomes)
        st.bounds = {'path_cases': npaths, 'range_cases': nranges, 'max_segments': 3 if tier == 'quick' else 4,
                     'segment_alphabet': len(SEGMENTS), 'mounts': [None, '/', '/static', '/static glued'], 'front_ends': list(FRONTENDS),
                     'range_values': list(RANGE_VALUES), 'range_units': list(RANGE_UNITS), 'file_sizes': list(RANGE_SIZES),
                     'max_specs_per_header': 2, 'tick_horizon': HORIZON,
                     'tier_restrictions': ('quick: glued mount, mount "/" and dirlisting=False with <= 2 segments; two-spec headers only '
                                           'unit bytes, 10-byte file, HTTP front end' if tier == 'quick' else
                                           'thorough: glued mount, mount "/" and dirlisting=False with <= 3 segments; two-spec headers on all '
                                           'sizes and units through HTTP, unit bytes also through the direct front end, ", " separator on 10/100 bytes')}
        # vacuity: the input classes the statement quantifies over were all generated, and the harness is alive (a file from inside
        # the docroot was served, a 206 was produced); redirects / listings / refusals are the implementation's choice and only counted
        for c in ('paths_denoting_something_outside_the_docroot', 'paths_into_the_sibling_extending_the_docroot_name',
                  'files_served_from_inside', 'answers_206', 'specs_reaching_beyond_the_end_of_the_file', 'range_headers_ok',
                  'range_headers_unsatisfiable', 'range_headers_malformed_spec', 'range_headers_other_unit',
                  'range_headers_reversed', 'range_headers_no_equals'):
            if not st.counters[c]:
                st.selfcheck_errors.append('vacuity: counter %s is 0' % c)
        return st
    finally:
        fx.remove()


def replay(wit):
    fx = Fixture()
    try:
        install_watch()
        _WATCH.update(root=fx.tmp, docroot=fx.docroot)
        if wit['kind'] == 'pair':
            first = (wit['first'][0], tuple(tuple(h) for h in wit['first'][1]))
            second = (wit['second'][0], tuple(tuple(h) for h in wit['second'][1]))
            o1, o2, problems = run_http_pair(fx, first, second)
            alone, _x, _p = run_http_pair(fx, second, second)
            ok = not problems and (b'Connection: close' in o1 or _strip_date(o2) == _strip_date(alone))
            text = 'keep-alive pair %r then %r\nfirst answer %r\nsecond answer %r\nthe second request alone %r\nproblems %r\n' % (
                first, second, o1[:200], o2[:200], alone[:200], problems)
            text += 'all clauses hold\n' if ok else 'VIOLATED pair: the second answer differs from the answer to the same request alone\n'
            return ok, text
        fe = wit['frontend']
        if wit['kind'] == 'path':
            segs = tuple(SEGMENTS.index(s) for s in wit['segments'])
            target = build_target(fx, wit['mount'], wit['glue'], segs)
            obs = run_frontend(fx, fe, wit['mount'], wit['dirlisting'], target)
            bad = judge_path(fx, fe, wit['mount'], wit['dirlisting'], target, obs)
            ref = denote(fx, wit['mount'], target, wit['dirlisting'])
            text = ('fixture %s (docroot = parent/docroot)\nfront end %s, Static(path=%r, dirlisting=%r), request path %r\n'
                    'reference: the path leads %s -> %s\n'
                    % (fx.tmp, fe, wit['mount'], wit['dirlisting'], target, ref[0],
                       'must be refused (3xx/4xx)' if ref[1] == 'refuse' else 'refusal or the %s %r' % (ref[1], ref[2] if ref[1] == 'listing' else ref[2][:50])))
        else:
            value, size, proto = wit['range'], wit['size'], wit.get('protocol', '1.1')
            obs = run_frontend(fx, fe, None, False, '/r%d.bin' % size, [('Range', value)], proto)
            bad = judge_range(fx, fe, size, value, obs)
            text = ('front end %s, HTTP/%s, GET /r%d.bin (%d bytes), Range: %s\nreference: %r\n'
                    % (fe, proto, size, size, value, reference_ranges(value, size)))
        text += 'observed: status %s, headers %r, body (%d bytes) %r, accesses outside the docroot %r, problems %r\n' % (
            obs['status'], {k: v for k, v in obs['headers'].items() if k not in ('date', 'last-modified')}, len(obs['body']),
            obs['body'][:80], obs['opens'], obs['problems'])
        text += ''.join('VIOLATED %s: %s\n' % b for b in bad) or 'all clauses hold\n'
        return (not bad), text
    finally:
        fx.remove()
