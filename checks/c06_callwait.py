"""C06 - call()/wait() resume the caller exactly once with the result, leaving no residue.

Engine E4 (+ task stepping order as an enumerated schedule choice): every acyclic program of caller / callee
handler shapes over events e0..e3 runs under the real run(); oracle on the ghost log.
"""
import itertools

from mc import core, ghost

PROPERTY = 'C06'
LEVEL = 'model_checking'
RULE = ('program = (handler shape of e0, e1, e2[, e3]) x (one or two root events in flight) x (task stepping order fifo/lifo) '
        'x optional timeout (0, 1, 3 iterations, also 1/2 and 5/2; the handler catches the TimeoutError and ends, or goes on with a bare yield, a value or a second call); callers: call by object, wait by name, wait by object, two calls in sequence, call then yield, '
        'yield then call; callees: return v/None, raise, generators yielding 1-2 times, raising before/after first yield, '
        'two handlers (one or both of them generators suspended at the same time); each program executed once under the real run(); non-trivial = every program (each suspends at least '
        'one caller); distinct = distinct program')
ASSUMPTIONS = [
    'acyclic call structure: a handler of e<i> only calls e<i+1>',
    'wait-by-name with two roots in flight is judged for exactly-once resumption only (by design it matches any event of that name)',
    'task stepping order within one loop iteration is owned by the harness (insertion order or reversed), both enumerated',
    'residue is read from Manager._handlers/_tasks through getattr; if absent the clause is judged by firing the temporary names',
]

LEAF = ['R', 'N', 'X', 'G1', 'G2', 'GX0', 'GX1', 'RG', 'XG', 'GA', 'GB', 'NOH', 'R0', 'G0', 'GG']
CALLER = ['call', 'waitn', 'waito', 'call2', 'cally', 'ycall', 'cally0', 'callwait', 'waitcall']
SLOW = ['S0', 'S1', 'S2', 'S3', 'S4']   # callee lasting k loop iterations (timeout programs)


def leaf_handlers(level, shape):
    b = 10 * (level + 1)
    t = 'e%d' % level
    h = 'h%d' % level
    if shape == 'NOH':   # nobody handles the callee event
        return []
    if shape == 'R':
        return [(h, t, 2, [('ret', b + 1)])]
    if shape == 'N':
        return [(h, t, 2, [('ret', None)])]
    if shape == 'R0':    # a falsy result is a result
        return [(h, t, 2, [('ret', 0)])]
    if shape == 'G0':
        return [(h, t, 2, ('gen', [('y', 0)]))]
    if shape == 'X':
        return [(h, t, 2, [('raise',)])]
    if shape == 'G1':
        return [(h, t, 2, ('gen', [('y', b + 5)]))]
    if shape == 'G2':
        return [(h, t, 2, ('gen', [('y', None), ('y', b + 5)]))]
    if shape == 'GX0':
        return [(h, t, 2, ('gen', [('raise',)]))]
    if shape == 'GX1':
        return [(h, t, 2, ('gen', [('y', None), ('raise',)]))]
    if shape == 'RG':
        return [(h + 'a', t, 2, [('ret', b + 1)]), (h + 'b', t, 1, ('gen', [('y', b + 5)]))]
    if shape == 'XG':
        return [(h + 'a', t, 2, [('raise',)]), (h + 'b', t, 1, ('gen', [('y', None), ('y', b + 5)]))]
    if shape == 'GG':   # two handlers of the callee event suspended at the same time, finishing one after the other
        return [(h + 'a', t, 2, ('gen', [('y', None), ('y', b + 5)])), (h + 'b', t, 1, ('gen', [('y', None), ('y', None), ('y', b + 6)]))]
    if shape == 'GA':   # first instance slow, second fast (asymmetric callers in flight)
        return [(h, t, 2, ('gen', [('yvar', (3, 0)), ('y', b + 5)]))]
    if shape == 'GC':
        return [(h, t, 2, ('gen', [('yvar', (6, 0)), ('y', b + 5)]))]
    if shape == 'GD':
        return [(h, t, 2, ('gen', [('yvar', (1, 4)), ('y', b + 5)]))]
    if shape == 'GB':   # first instance fast, second slow
        return [(h, t, 2, ('gen', [('yvar', (0, 2)), ('y', b + 5)]))]
    if shape.startswith('S'):
        k = int(shape[1:])
        return [(h, t, 2, ('gen', [('y', None)] * k + [('y', b + 5)]))]
    raise ValueError(shape)


def caller_handlers(level, shape, opts=None):
    b = 10 * (level + 1)
    t = 'e%d' % level
    nxt = 'e%d' % (level + 1)
    h = 'h%d' % level
    o = dict(opts or {})
    steps = {
        'call': [('call', nxt, o)],
        'waitn': [('waitn', nxt, o)],
        'waito': [('waito', nxt, o)],
        'call2': [('call', nxt, o), ('call', nxt, o)],
        'cally': [('call', nxt, o), ('y', b + 9)],
        'ycall': [('y', None), ('call', nxt, o)],
        'cally0': [('call', nxt, o), ('y', 0)],
        'callyn': [('call', nxt, o), ('y', None), ('y', b + 9)],     # (after a time-out: the handler catches it and goes on)
        # two roots in flight: one of them calls, the other waits by name for an event of the same name
        'callwait': [('byinst', [('call', nxt, o), ('waitn', nxt, o)])],
        'waitcall': [('byinst', [('waitn', nxt, o), ('call', nxt, o)])],      # the caller's own result, produced right after being resumed, is falsy
        'waitnever': [('waitn_never', 'never', o)],
    }[shape]
    return [(h, t, 2, ('gen', steps))]


def programs(tier):
    """(shapes tuple, nroots, reverse, timeout)"""
    depth_leafs = LEAF
    for rev in (False, True):
        for nroots in (1, 2):
            # depth 1: e0 caller, e1 leaf
            for c0 in CALLER:
                for l1 in depth_leafs:
                    yield (c0, l1), nroots, rev, None
            # depth 2: e0 caller, e1 caller, e2 leaf
            for c0 in CALLER:
                for c1 in CALLER:
                    for l2 in depth_leafs:
                        yield (c0, c1, l2), nroots, rev, None
            if tier != 'quick':
                for c0 in CALLER:
                    for c1 in CALLER:
                        for c2 in CALLER:
                            for l3 in depth_leafs:
                                yield (c0, c1, c2, l3), nroots, rev, None
        # time-outs: caller with timeout t against callee lasting k iterations
        touts = (0, 1, 3, 0.5, 2.5)      # (a time-out need not be a whole number of iterations)
        for t in touts:
            for c0 in ('call', 'waitn', 'waito', 'cally', 'callyn', 'call2'):
                for s in SLOW + ['R', 'GX1']:
                    for nroots in (1, 2):
                        yield (c0, s), nroots, rev, t
            for nroots in (1, 2):
                yield ('waitnever',), nroots, rev, t
        # two callers in flight with different time-outs against callees of different duration
        for tp in ((1, 5), (5, 1), (0, 6), (6, 0), (2, 3)):
            for c0 in ('call', 'waito'):
                for s in ('GA', 'GB', 'GC', 'GD'):
                    yield (c0, s), 2, rev, tp
        # many callers in flight at once (each with its own callee instance and result)
        for nroots in ((12, 40) if tier == 'quick' else (12, 40, 150)):
            for prog in (('call', 'G2'), ('waito', 'GA'), ('call2', 'XG'), ('call', 'call', 'GB'), ('callwait', 'GD'), ('cally0', 'R0')):
                yield prog, nroots, rev, None
            yield ('call', 'S3'), nroots, rev, (1, 9, 2, 0)
        # one root calls, the other waits by name for an event of the same name; callees of different duration per instance
        for c0 in ('callwait', 'waitcall'):
            for s in ('GA', 'GB', 'GC', 'GD', 'R', 'G2', 'XG'):
                yield (c0, s), 2, rev, None
        # two waiters suspended on the SAME event (wait by name is satisfied by the first event of that name), one impatient
        for tp in ((1, 9), (9, 1), (0, 9), (2, 20), (1, -1), (-1, 1), (0, -1), (2, -1)):       # -1: no time-out at all
            for s in ('S3', 'S4', 'GC', 'GA'):
                yield ('waitn', s), 2, rev, tp


def build(program):
    shapes, nroots, rev, timeout = program
    handlers = []
    for lvl, sh in enumerate(shapes):
        if sh in CALLER or sh in ('waitnever', 'callyn'):
            opts = {'timeout': timeout} if (timeout is not None and lvl == 0) else None
            handlers += caller_handlers(lvl, sh, opts)
        else:
            handlers += leaf_handlers(lvl, sh)
    return handlers


def handler_table(w):
    tab = getattr(w.comp, '_handlers', None)
    if tab is None:
        return None
    return {k: len(v) for k, v in tab.items()}


def execute(program):
    shapes, nroots, rev, timeout = program
    ghost.World.task_order_reversed = rev

    def go(w):
        for _ in range(nroots):
            w.fire('e0', {'success': True, 'complete': True})
    ghost.World.observe_names = ['e0_success', 'e0_complete', 'exception']
    try:
        w = ghost.RunWorld(build(program), script=[None, go], horizon=70 + 4 * nroots)
    finally:
        ghost.World.observe_names = None
    w.value_by_eid = True
    w.lazy = True             # once the roots are fired the library alone decides how long the loop idles ...
    w.use_idle_double()       # ... over a double of the fall-back's wait: an unbounded wait with tasks pending is a hang
    ghost.World.task_order_reversed = False
    before = handler_table(w)
    res = w.run()
    after = handler_table(w)
    tasks = getattr(w.root, '_tasks', None)
    w.residue = (before, after, len(tasks) if tasks is not None else None)
    return w, res


def produced(log, eid):
    vals = [x[3] for x in log if x[0] == 'val' and x[2] == eid]
    raises = any(v == 'ERR' for v in vals)
    exp = None if not vals else (vals[0] if len(vals) == 1 else vals)
    return exp, raises


def judge(program, w, res):
    shapes, nroots, rev, timeout = program
    log = w.log
    bad = []
    if res != ('return', None):
        bad.append(('run-crashed', 'run() ended with %r' % (res,)))
        return bad
    if w.capped:
        bad.append(('no-quiescence', 'still active after %d loop iterations' % w.horizon))
    if w.hung:
        bad.append(('hang:idle-forever', '%s: suspended handlers are only stepped again if another thread wakes the loop' % w.hung))
    iters_at = []
    n = 0
    for x in log:
        if x[0] == 'iter':
            n += 1
        iters_at.append(n)
    byname_multi = nroots > 1
    for i, x in enumerate(log):
        if x[0] != 'suspend':
            continue
        _, hid, eid, callee, how = x
        res_idx = [j for j, y in enumerate(log) if y[0] == 'resumed' and y[1] == hid and y[2] == eid and y[3] == callee]
        never = how == 'waitn_never'
        if not res_idx:
            exp, raises = produced(log, callee)
            cls = 'callee-generator-raised' if any(y[0] == 'exit' and y[2] == callee and y[3] == 'raise' for y in log) else 'other'
            bad.append(('hang:' + cls, 'caller %s of e%d suspended on e%d (%s) was never resumed (quiescent: queue and tasks empty)'
                        % (hid, eid, callee, how)))
            continue
        if len(res_idx) > 1:
            bad.append(('resumed-twice', 'caller %s of e%d resumed %d times for e%d' % (hid, eid, len(res_idx), callee)))
        j = res_idx[0]
        got, goterr = log[j][4], log[j][5]
        if isinstance(got, str) and got.startswith('EXC:'):
            if got != 'EXC:TimeoutError' or timeout is None:
                bad.append(('resume-exception', 'caller %s received %s' % (hid, got)))
            else:
                elapsed = iters_at[j] - iters_at[i]
                tmo = ghost.World.pick(timeout, w.events[eid])
                if elapsed < tmo:
                    bad.append(('timeout-early', 'TimeoutError after %d loop iterations, timeout=%r' % (elapsed, tmo)))
            continue
        if never:
            bad.append(('resume-never', 'wait for an event that never happens returned %r' % (got,)))
            continue
        last = max([k for k, y in enumerate(log) if y[0] in ('enter', 'exit', 'step', 'val') and y[2] == callee] or [-1])
        if how == 'waitn' and byname_multi:
            # by design a wait by name is satisfied by an event of that name dispatched after the wait was set up - but by ONE such
            # event as a whole: the waiter resumes after that event has finished, with that event's result
            cname = w.events[callee].name
            ok = False
            for c, evc in w.events.items():
                if evc.name != cname:
                    continue
                acts = [k for k, y in enumerate(log) if y[0] in ('enter', 'exit', 'step', 'val') and y[2] == c]
                if acts and acts[-1] > j:
                    continue            # still busy when the waiter was resumed
                if (produced(log, c)[0], bool(produced(log, c)[1])) == (got, bool(goterr)):
                    ok = True
            if not ok:
                bad.append(('wrong-result:by-name', 'caller %s of e%d (waiting by name for %s) was resumed with value %r errors=%r, which is the '
                            'result of no event of that name that had finished by then' % (hid, eid, cname, got, goterr)))
            continue
        if j < last:
            bad.append(('resumed-early', 'caller %s resumed at %d before callee e%d finished (%r at %d)' % (hid, j, callee, log[last], last)))
        exp, raises = produced(log, callee)
        if got != exp or bool(goterr) != bool(raises):
            bad.append(('wrong-result', 'caller %s of e%d got value %r errors=%r from e%d; its handlers produced %r raised=%r'
                        % (hid, eid, got, goterr, callee, exp, raises)))
    # the caller's own event completes as if the handler had run synchronously
    for x in log:
        if x[0] == 'fire' and x[2] == 'e0':
            eid = x[1]
            exp, raises = produced(log, eid)
            val = w.values[eid]
            gotv = ghost.snapv(val.value)
            hung = any(b[0].startswith('hang') for b in bad)
            if hung:
                continue
            if gotv != exp:
                bad.append(('root-value', 'Value of root e%d is %r, handler produced %r' % (eid, gotv, exp)))
            succ = [k for k, y in enumerate(log) if y[0] == 'obs' and y[1] == 'e0_success' and y[2] == eid]
            comp = [k for k, y in enumerate(log) if y[0] == 'obs' and y[1] == 'e0_complete' and y[2] == eid]
            last = max([k for k, y in enumerate(log) if y[0] in ('enter', 'exit', 'step', 'val', 'resumed') and y[2] == eid] or [-1])
            if len(succ) != (0 if raises else 1):
                bad.append(('root-success', 'e0_success fired %d times for root e%d (raised=%r)' % (len(succ), eid, raises)))
            elif succ and succ[0] < last:
                bad.append(('root-success-early', 'e0_success before the caller finished'))
            elif succ and log[succ[0]][4] != (True, repr(exp)):
                bad.append(('root-success-args', 'e0_success for root e%d carries %r instead of (the event, its value %r)' % (eid, log[succ[0]][4], exp)))
            if len(comp) != 1:
                bad.append(('root-complete', 'e0_complete fired %d times for root e%d' % (len(comp), eid)))
            elif comp[0] < last:
                bad.append(('root-complete-early', 'e0_complete before the caller finished'))
            elif log[comp[0]][4] != (True, repr(exp)):
                bad.append(('root-complete-args', 'e0_complete for root e%d carries %r instead of (the event, its value %r)' % (eid, log[comp[0]][4], exp)))
    before, after, ntasks = w.residue
    if before is not None and after is not None and before != after:
        diff = {k: (before.get(k, 0), after.get(k, 0)) for k in set(before) | set(after) if before.get(k, 0) != after.get(k, 0)}
        names = sorted(diff)
        cls = 'done-handler' if any(k.endswith('_done') for k in names) else ('event-handler' if 'never' in names else 'other')
        if not any(b[0].startswith('hang') for b in bad):
            bad.append(('residue:' + cls, 'temporary handlers left at quiescence: %r' % diff))
    if ntasks:
        bad.append(('residue:tasks', '%d task(s) still registered at quiescence' % ntasks))
    return bad


def pj(program):
    return {'shapes': list(program[0]), 'roots': program[1], 'reverse_tasks': program[2], 'timeout': list(program[3]) if isinstance(program[3], tuple) else program[3]}


def _work(part, nparts, payload):
    tier, seed = payload
    core.quiet_stderr()
    st = core.Stats()
    for idx, program in enumerate(itertools.islice(programs(tier), part, None, nparts)):
        w, res = execute(program)
        st.executions += 1
        st.transitions += len(w.log)
        bad = judge(program, w, res)
        st.outcome(tuple(x for x in w.log if x[0] in ('obs', 'resumed', 'val')))
        st.interesting(program)
        if program[1] == 2:
            st.counters['programs_with_two_callers_in_flight'] += 1
        if any(x[0] == 'resumed' and x[5] for x in w.log):
            st.counters['executions_resumed_with_error_flag'] += 1
        if any(x[0] == 'resumed' and x[4] == 'EXC:TimeoutError' for x in w.log):
            st.counters['executions_resumed_by_timeout'] += 1
        if part == seed % nparts and idx in (2, 40):
            st.sample({'program': pj(program), 'log': [list(x) for x in w.log if x[0] != 'iter'][:50]})
        for kind, text in bad:
            st.fail(kind, '%s [program %r]' % (text, pj(program)), pj(program))
    return st


def run(tier, seed, workers):
    total = sum(1 for _ in programs(tier))
    st = core.parallel(_work, (tier, seed), workers, nparts=workers * 4)
    probe = (('call', 'cally', 'XG'), 2, True, None)
    if execute(probe)[0].log != execute(probe)[0].log:
        st.selfcheck_errors.append('determinism: two runs differ')
    if st.executions != total:
        st.selfcheck_errors.append('enumeration: %d of %d' % (st.executions, total))
    st.states = len(st.outcomes)
    st.bounds = {'programs': total, 'call_depth': 2 if tier == 'quick' else 3, 'roots_in_flight': [1, 2, 12, 40] if tier == 'quick' else [1, 2, 12, 40, 150], 'timeouts': [0, 0.5, 1, 2.5, 3],
                 'callee_durations': [0, 1, 2, 3, 4], 'task_orders': 2}
    for c in ('executions_resumed_with_error_flag', 'executions_resumed_by_timeout', 'programs_with_two_callers_in_flight'):
        if not st.counters[c]:
            st.selfcheck_errors.append('vacuity: ' + c)
    return st


def replay(wj):
    program = (tuple(wj['shapes']), wj['roots'], wj['reverse_tasks'], tuple(wj['timeout']) if isinstance(wj['timeout'], list) else wj['timeout'])
    w, res = execute(program)
    bad = judge(program, w, res)
    text = 'program %r\nrun() -> %r\nlog:\n  %s\nresidue(before, after, tasks)=%r\n' % (
        pj(program), res, '\n  '.join(map(repr, (x for x in w.log if x[0] != 'iter'))), w.residue)
    text += ''.join('VIOLATED %s: %s\n' % b for b in bad) or 'all clauses hold\n'
    return (not bad), text
