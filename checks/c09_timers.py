"""C09 - timers never fire early, fire as often as specified, and bound the idle sleep.

Engine E3 on a virtual clock: the real run() with real Timer components; `time` in circuits.core.timers/manager
and the Event class of circuits.core.helpers (the fallback idle wait) are replaced by a virtual clock / virtual
wait.  Environment choices per execution (deviation-bounded): real length of each idle wait {as requested,
+1/8 late, half = spurious early wake}, cost of each loop iteration {0, 1/8}.
"""
import itertools
import threading
from datetime import datetime

import circuits.core.helpers as helpers_mod
import circuits.core.manager as manager_mod
import circuits.core.timers as timers_mod
from circuits.core.components import BaseComponent
from circuits.core.events import Event
from circuits.core.handlers import handler
from circuits.core.timers import Timer

from mc import core, doubles, e3_deviation as e3

PROPERTY = 'C09'
LEVEL = 'model_checking'
RULE = ('program = set of 1-3 real Timer components (interval from {0, 1/2, 1, 5/2}, persistent or not, float or absolute datetime '
        'deadline, created at virtual time 0 or 1/2, optionally reset() or unregister()ed at a grid time) x background (event chain, '
        'generator task) x (the handler of the timer event calls event.stop(), for persistent timers) x (another thread registering a one-shot timer half a second into an idle wait); every environment script with <= k deviations (idle wait late / spuriously early, loop iteration costing 1/8) '
        'is executed under the real run(); non-trivial = execution with at least one timer firing and one idle wait; '
        'distinct = distinct (program, environment script)')
ASSUMPTIONS = [
    'virtual clock on a dyadic grid; TIMEOUT patched to 1/8 so that all arithmetic stays exact',
    'idle mechanisms: the built-in fallback wait and, for single-timer programs, the blocking call of Select, Poll and EPoll (virtual select module)',
    'a spy on the Timer instance attribute `fire` records when the timer fires (instance attribute, no source change)',
    'absolute datetime deadlines count at whole-second resolution, as the statement says',
]

CUR = None      # the world being executed (module global: the doubles look it up)


class VEvent:
    """Double for threading.Event in circuits.core.helpers: wait() advances the virtual clock."""

    def __init__(self):
        self.flag = False

    def set(self):
        self.flag = True

    def clear(self):
        self.flag = False

    def is_set(self):
        return self.flag

    def wait(self, timeout=None):
        w = CUR
        if w is None or self.flag:
            return self.flag
        return w.idle_wait(timeout, self)


class _VPoll:
    def __init__(self, real, unit):
        self._real = real
        self._unit = unit      # poll(): milliseconds, epoll(): seconds

    def __getattr__(self, name):
        return getattr(self._real, name)

    def poll(self, timeout=None, *a):
        ready = self._real.poll(0)
        w = CUR
        if ready or w is None or (timeout is not None and timeout == 0):
            return ready
        t = None if (timeout is None or timeout < 0) else timeout / self._unit
        w.idle_wait(t)
        return self._real.poll(0)


class VSelect:
    """Double for the `select` module in circuits.core.pollers: a blocking call advances the virtual clock."""

    def __getattr__(self, name):
        import select as real
        return getattr(real, name)

    def select(self, r, w_, x, timeout=None):
        import select as real
        res = real.select(r, w_, x, 0)
        w = CUR
        if any(res) or w is None or (timeout is not None and timeout == 0):
            return res
        w.idle_wait(timeout)
        return real.select(r, w_, x, 0)

    def poll(self):
        import select as real
        return _VPoll(real.poll(), 1000.0)

    def epoll(self, *a, **k):
        import select as real
        return _VPoll(real.epoll(*a, **k), 1.0)


def vtime():
    return CUR.clock.now if CUR is not None else doubles.VirtualClock.BASE


_PATCHED = False


def patch():
    global _PATCHED
    if _PATCHED:
        return
    doubles.patch_process_globals()
    timers_mod.time = vtime
    manager_mod.time = vtime
    manager_mod.TIMEOUT = 0.125
    helpers_mod.Event = VEvent
    import circuits.core.pollers as pollers_mod
    pollers_mod.select = VSelect()
    _PATCHED = True


class World:
    def __init__(self, program, prefix):
        global CUR
        patch()
        CUR = self
        self.program = program
        self.env = e3.Env(prefix)
        self.clock = doubles.VirtualClock()
        self.log = []
        self.iter = 0
        self.ge = None
        self.bad = []
        self.timers = {}
        self.root = BaseComponent()
        self.poller = None
        if program.get('mech', 'fallback') != 'fallback':
            import circuits.core.pollers as pollers_mod
            self.poller = getattr(pollers_mod, program['mech'])().register(self.root)
        self.sink = BaseComponent().register(self.root)
        self.specs = list(program['timers'])
        # 'foreign': during the first idle wait of at least 1 s another thread registers a one-shot timer of that interval
        self.foreign_pending = program.get('foreign') is not None
        self.horizon_t = 5.0
        self.horizon_iter = 60
        self.forever = False
        self.nwaits = 0
        w = self

        def on_ge(self, event):
            w.on_generate_events(event)
        self.root.addHandler(handler('generate_events', priority=1000)(on_ge))

        def on_late(self, event):
            w.after_timers(event)
        self.root.addHandler(handler('generate_events', priority=-50)(on_late))

        def on_tick(self, event, k):
            w.log.append(('disp', k, w.rel(), w.iter))
            if program.get('stop'):
                event.stop()          # the consumer claims the tick: no further handler sees this firing
        self.sink.addHandler(handler('ttick')(on_tick))
        def on_act(self, event, acts):
            # environment choice: the handlers dispatched before this one were busy - the clock has moved on since the timers
            # looked at it in their generate_events handlers
            if any(what in ('reset', 'unreg') for _at, what, _k in acts) and w.env.choose('busy-handlers', 2):
                w.clock.advance(0.125)
            for at, what, k in acts:
                w.do(what, k, w.rel())
        self.sink.addHandler(handler('act')(on_act))
        if program['chain']:
            def on_c(self, event, n):
                w.log.append(('chain', n))
                if n < 3:
                    self.fire(Event.create('cstep', n + 1))
            self.sink.addHandler(handler('cstep')(on_c))
        if program['task']:
            def on_g(self, event):
                for _ in range(4):
                    w.log.append(('taskstep', w.rel()))
                    yield None
            self.sink.addHandler(handler('gtask')(on_g))
        while len(self.root):
            self.root.flush()
        # scripted actions at virtual times
        self.actions = []
        for k, t in enumerate(program['timers']):
            self.actions.append((t['at'], 'create', k))
            if t['act']:
                self.actions.append((t['act'][1], t['act'][0], k))
        if program['chain']:
            self.actions.append((0.0, 'chain', None))
        if program['task']:
            self.actions.append((0.0, 'task', None))
        self.actions.sort(key=lambda a: (a[0], a[1] != 'create'))

    def rel(self):
        return self.clock.now - self.clock.BASE

    # -- driver (generate_events, priority 1000) ---------------------------------------------------
    def on_generate_events(self, event):
        self.iter += 1
        self.ge = event
        if self.env.choose('iteration-cost', 2):
            self.clock.advance(0.125)
        now = self.rel()
        due_actions = []
        while self.actions and self.actions[0][0] <= now:
            due_actions.append(self.actions.pop(0))
        if due_actions:
            # performed by an ordinary event handler in the next pass (timers are created / reset by application
            # handlers, not in the middle of a generate_events dispatch); having fired, ask for zero idle time
            self.sink.fire(Event.create('act', due_actions))
            event.reduce_time_left(0)
        if self.actions:
            event.reduce_time_left(max(0.0, self.actions[0][0] - now))
        done = (not self.actions and not due_actions and len(self.timers) == len(self.specs) and not self.foreign_pending
                and all(g['dead'] for g in self.timers.values()) and not len(self.root))
        if self.forever or self.iter >= self.horizon_iter or now >= self.horizon_t or done:
            self.log.append(('driver-stop', now))
            self.root.stop()
        # ghost: which timers are due in this iteration (judged in after_timers)
        self.due = [k for k, g in self.timers.items() if not g['dead'] and not g['pending'] and g['expiry'] is not None
                    and self.clock.now >= g['expiry'] and g['timer'].parent is not g['timer']]
        self.fired_this_iter = set()

    def do(self, what, k, now):
        if what == 'create':
            spec = self.specs[k]
            ev = Event.create('ttick', k)
            if spec['kind'] == 'datetime':
                deadline = self.clock.now + spec['interval']
                arg = datetime.fromtimestamp(deadline)
                first = float(int(deadline))          # whole-second resolution
            else:
                arg = spec['interval']
                first = self.clock.now + spec['interval']
            # a one-shot timer is created the way most applications do it: without the persist argument (its default)
            t = Timer(arg, ev, persist=True) if spec['persist'] else Timer(arg, ev)
            g = {'timer': t, 'expiry': first, 'interval': spec['interval'], 'persist': spec['persist'], 'dead': False,
                 'pending': False, 'fires': [], 'kind': spec['kind'], 'first': True}
            self.timers[k] = g
            w = self
            real_fire = t.fire

            def spy(event, *channels, **kw):
                if event is ev:
                    w.on_timer_fire(k)
                return real_fire(event, *channels, **kw)
            t.fire = spy
            t.register(self.root)
            self.log.append(('create', k, now))
        elif what == 'reset' and k in self.timers:
            g = self.timers[k]
            if not g['dead']:
                g['timer'].reset()
                g['expiry'] = self.clock.now + g['timer'].interval
                self.log.append(('reset', k, now))
        elif what == 'unreg' and k in self.timers:
            g = self.timers[k]
            if not g['dead'] and g['timer'].parent is not g['timer']:
                g['timer'].unregister()
                g['pending'] = True
                g['user_unreg'] = True
                g['unreg_at'] = now
                self.log.append(('unreg', k, now))
        elif what == 'chain':
            self.sink.fire(Event.create('cstep', 1))
        elif what == 'task':
            self.sink.fire(Event.create('gtask'))

    def on_timer_fire(self, k):
        g = self.timers[k]
        now = self.clock.now
        self.fired_this_iter.add(k)
        self.log.append(('fire', k, self.rel(), self.iter))
        if g['expiry'] is not None and now < g['expiry']:
            self.bad.append(('early', 'timer %d fired at t=%r, not before %r was allowed (%s)' % (
                k, self.rel(), g['expiry'] - self.clock.BASE, self.describe(k))))
        if g.get('user_unreg'):
            self.bad.append(('fired-after-unregister', 'timer %d fired at t=%r although unregister() had been called at t=%r (%s)' % (
                k, self.rel(), g.get('unreg_at'), self.describe(k))))
        if g['dead'] or (g['pending'] and g['timer'].parent is g['timer']):
            self.bad.append(('fired-after-end', 'timer %d fired at t=%r after it had ended (%s)' % (k, self.rel(), self.describe(k))))
        if g['fires'] and g['persist'] and now - g['fires'][-1] < g['interval']:
            self.bad.append(('burst', 'persistent timer %d fired at %r and again at %r, interval %r' % (
                k, g['fires'][-1] - self.clock.BASE, self.rel(), g['interval'])))
        if g['fires'] and not g['persist']:
            self.bad.append(('one-shot-twice', 'one-shot timer %d fired a second time at t=%r' % (k, self.rel())))
        g['fires'].append(now)
        if g['persist']:
            g['expiry'] = now + g['interval']
        else:
            g['expiry'] = None
            g['pending'] = True      # it unregisters itself

    def describe(self, k):
        return 'spec %r' % (self.specs[k],)

    # -- after the timers' own generate_events handlers (priority -50) -------------------------------
    def after_timers(self, event):
        for k in self.due:
            if k not in self.fired_this_iter:
                g = self.timers[k]
                if g['pending'] or g['dead']:
                    continue
                self.bad.append(('due-not-fired', 'timer %d was due (expiry %r <= now %r) in loop iteration %d but did not fire (%s)' % (
                    k, g['expiry'] - self.clock.BASE if g['expiry'] else None, self.rel(), self.iter, self.describe(k))))
        for g in self.timers.values():
            if g['pending'] and g['timer'].parent is g['timer'] and not g['timer'].unregister_pending:
                g['dead'] = True
                g['pending'] = False

    # -- idle wait (fallback generator) --------------------------------------------------------------
    def idle_wait(self, timeout, vevent=None):
        self.nwaits += 1
        now = self.clock.now
        if self.foreign_pending and vevent is not None and timeout is not None and 1.0 <= timeout < 10000:
            # half a second into this wait another thread registers a one-shot timer; that has to end the wait (C03), so that
            # the loop does not sleep past the new, earlier expiry
            self.foreign_pending = False
            self.clock.advance(0.5)
            k = len(self.specs)
            self.specs.append({'interval': self.program['foreign'], 'persist': False, 'kind': 'float', 'at': self.rel(), 'act': None})
            th = threading.Thread(target=self.do, args=('create', k, self.rel()))
            th.start()
            th.join()
            self.log.append(('foreign-timer', k, self.rel(), vevent.flag))
            if vevent.flag:
                return True
            rest = timeout - 0.5
            self.clock.advance(rest)
            due = [g['expiry'] for g in self.timers.values() if not g['dead'] and not g['pending'] and g['expiry'] is not None]
            if due and min(due) + 0.125 < self.clock.now:
                self.bad.append(('oversleep', 'a timer registered by another thread at t=%r expires at %r, but the idle wait of %r s begun at %r '
                                 'went on to its end' % (self.rel() - rest, min(due) - self.clock.BASE, timeout, now - self.clock.BASE)))
            return False
        pend = [g['expiry'] for g in self.timers.values() if not g['dead'] and not g['pending'] and g['expiry'] is not None
                and g['timer'].parent is not g['timer']]
        if timeout is None or timeout >= 10000:
            if pend:
                self.bad.append(('oversleep', 'idle wait without limit at t=%r while a timer expires at %r' % (self.rel(), min(pend) - self.clock.BASE)))
            # nothing will ever wake the loop: end of the scenario
            self.forever = True
            if self.ge is not None:
                self.ge.reduce_time_left(0)
            return False
        if pend and now + timeout > min(pend):
            self.bad.append(('oversleep', 'idle wait of %r requested at t=%r although a timer expires at %r' % (
                timeout, self.rel(), min(pend) - self.clock.BASE)))
        c = self.env.choose('idle-wait', 3)
        actual = timeout if c == 0 else (timeout + 0.125 if c == 1 else timeout / 2)
        self.log.append(('wait', self.rel(), timeout, actual))
        self.clock.advance(actual)
        return False


def execute(program, prefix):
    global CUR
    w = World(program, prefix)
    try:
        w.root.run()
        w.result = 'return'
    except BaseException as exc:  # noqa: BLE001
        w.result = 'raised %r' % (exc,)
    CUR = None
    if w.poller is not None:
        import os
        for fd in (getattr(w.poller, '_ctrl_recv', None), getattr(w.poller, '_ctrl_send', None)):
            if isinstance(fd, int):
                try:
                    os.close(fd)
                except OSError:
                    pass
        p = getattr(w.poller, '_poller', None)
        if p is not None and hasattr(p, 'close'):
            try:
                p.close()
            except Exception:  # noqa: BLE001
                pass
    return w


def judge(w):
    bad = list(w.bad)
    if w.result != 'return':
        bad.append(('crash', 'run() %s' % w.result))
    if w.env.diverged:
        bad.append(('harness', w.env.diverged))
    end = w.rel()
    for k, g in w.timers.items():
        spec = w.specs[k]
        nf = len(g['fires'])
        # liveness: a one-shot that was never reset late / unregistered must have fired once within the horizon
        if not g['persist'] and nf == 0 and not spec['act'] and w.iter < w.horizon_iter and spec['at'] + spec['interval'] + 1.0 < end:
            bad.append(('never-fired', 'one-shot timer %d never fired until t=%r (%s)' % (k, end, w.describe(k))))
        if not g['persist'] and nf >= 1:
            t = g['timer']
            if t.parent is not t and w.iter < w.horizon_iter - 3 and not w.forever is None:
                # it must have removed itself once the loop went on for a few iterations
                fired_iter = [x[3] for x in w.log if x[0] == 'fire' and x[1] == k][0]
                if w.iter - fired_iter >= 4:
                    bad.append(('not-removed', 'one-shot timer %d still registered %d iterations after firing' % (k, w.iter - fired_iter)))
        disp = [x for x in w.log if x[0] == 'disp' and x[1] == k]
        if abs(len(disp) - nf) > 1 or (len(disp) > nf):
            bad.append(('dispatch-count', 'timer %d fired %d times but its event was dispatched %d times' % (k, nf, len(disp))))
    return bad


INTERVALS = (0.0, 0.5, 1.0, 2.5)
FINE = 1.0 / 256          # an interval / a distance between two expiries far below any plausible wait granularity


def timer_specs(full):
    specs = []
    for iv in INTERVALS:
        for persist in (False, True):
            for at in (0.0, 0.5):
                acts = [None, ('reset', 0.5), ('reset', 1.0), ('unreg', 0.5), ('unreg', 1.5)] if full else [None]
                for act in acts:
                    if act and act[1] < at:
                        continue
                    specs.append({'interval': iv, 'persist': persist, 'kind': 'float', 'at': at, 'act': act})
    for iv in (1.0, 2.5, 0.5):
        for at in (0.0, 0.5):
            specs.append({'interval': iv, 'persist': False, 'kind': 'datetime', 'at': at, 'act': None})
    if full:
        for persist in (False, True):
            specs.append({'interval': FINE, 'persist': persist, 'kind': 'float', 'at': 0.0, 'act': None})
            specs.append({'interval': 0.5 + FINE, 'persist': persist, 'kind': 'float', 'at': 0.5, 'act': None})
    return specs


def programs(tier):
    """yield (program, deviation bound)"""
    k1, k2 = (2, 1) if tier == 'quick' else (3, 2)
    singles = timer_specs(True)
    for s in singles:
        for chain, task in ((False, False), (True, False), (False, True)):
            yield {'timers': [s], 'chain': chain, 'task': task}, k1
    # the handler of the timer's event claims it (event.stop()): a persistent timer fires the same event object again, and
    # every firing still reaches that handler
    for s in singles:
        if s['persist']:
            yield {'timers': [s], 'chain': False, 'task': False, 'stop': True}, k1
    # a timer registered by another thread while the loop sleeps towards a later expiry
    for s in singles:
        if s['interval'] >= 1.0 and not s['act'] and s['kind'] == 'float':
            for iv in (0.0, 0.25):
                yield {'timers': [s], 'chain': False, 'task': False, 'foreign': iv}, k1
    # the same budget protocol through each poller's blocking call (seconds for select/epoll, milliseconds for poll)
    for mech in ('Select', 'Poll', 'EPoll'):
        for s in singles:
            if s['act'] and s['act'][0] == 'reset' and tier == 'quick':
                continue
            yield {'timers': [s], 'chain': False, 'task': s['interval'] == 1.0, 'mech': mech}, (1 if tier == 'quick' else 2)
    small = [s for s in timer_specs(False) if s['at'] == 0.0 or s['interval'] in (0.5, 1.0)]
    menu = small if tier != 'quick' else [s for s in small if s['interval'] != 2.5 or not s['persist']]
    for a, b in itertools.combinations_with_replacement(range(len(menu)), 2):
        yield {'timers': [menu[a], menu[b]], 'chain': False, 'task': (a + b) % 3 == 0}, k2
    # two expiries a tiny distance apart (the idle wait between them is tiny but not zero)
    for base in (0.5, 1.0):
        for pa in (False, True):
            for pb in (False, True):
                yield {'timers': [{'interval': base, 'persist': pa, 'kind': 'float', 'at': 0.0, 'act': None},
                                  {'interval': base + FINE, 'persist': pb, 'kind': 'float', 'at': 0.0, 'act': None}], 'chain': False, 'task': False}, k2
    if tier != 'quick':
        tri = [s for s in small if s['kind'] == 'float' and s['interval'] in (0.0, 0.5, 1.0)]
        for a, b, c in itertools.combinations(range(len(tri)), 3):
            yield {'timers': [tri[a], tri[b], tri[c]], 'chain': False, 'task': False}, 1


def _work(items):
    core.quiet_stderr()
    st = core.Stats()
    for program, bound in items:
        def run_one(prefix):
            w = execute(program, prefix)
            st.executions += 1
            st.transitions += len(w.env.choices)
            nf = sum(len(g['fires']) for g in w.timers.values())
            if nf and w.nwaits:
                st.interesting((repr(program), tuple(w.env.choices)))
            if w.env.deviations():
                st.counters['executions_with_environment_deviation'] += 1
            if any(x[0] == 'wait' and x[3] < x[2] for x in w.log):
                st.counters['executions_with_spurious_early_wake'] += 1
            st.counters['timer_firings'] += nf
            st.outcome(tuple(x for x in w.log if x[0] in ('fire', 'wait')))
            for kind, text in judge(w):
                if kind == 'harness':
                    st.selfcheck_errors.append(text)
                else:
                    st.fail(kind, '%s [env deviations %r]' % (text, w.env.deviations()),
                            {'program': program, 'choices': w.env.choices})
            if len(st.samples) < 2 and w.env.deviations() and nf:
                st.sample({'program': program, 'env_deviations': w.env.deviations(), 'log': [list(x) for x in w.log][:40]})
            return w.env
        e3.explore(run_one, bound)
    return st


def run(tier, seed, workers):
    items = list(programs(tier))
    import random
    random.Random(seed + 7).shuffle(items)
    st = core.parallel_items(_work, items, workers, chunk=max(1, len(items) // (workers * 8)))
    # determinism probe on a single-timer program: with several timers the order of their (equal-priority) generate_events
    # handlers follows set iteration order, which no oracle constrains and the harness does not own
    probe = [it[0] for it in items if len(it[0]['timers']) == 1 and it[0]['timers'][0]['persist']][0]
    a, b = execute(probe, []), execute(probe, [])
    if a.log != b.log:
        st.selfcheck_errors.append('determinism: two runs differ')
    st.states = len(st.outcomes)
    st.bounds = {'programs': len(items), 'deviation_bound_single_timer': items and max(b for _, b in items), 'horizon_virtual_seconds': 5.0,
                 'horizon_iterations': 60, 'intervals': list(INTERVALS) + [FINE, 0.5 + FINE]}
    for c in ('executions_with_spurious_early_wake', 'timer_firings'):
        if not st.counters[c]:
            st.selfcheck_errors.append('vacuity: ' + c)
    return st


def replay(wj):
    w = execute(wj['program'], wj['choices'])
    bad = judge(w)
    text = 'program %r\nenvironment deviations %r\nlog:\n  %s\n' % (wj['program'], w.env.deviations(), '\n  '.join(map(repr, w.log)))
    text += ''.join('VIOLATED %s: %s\n' % b for b in bad) or 'all clauses hold\n'
    return (not bad), text
