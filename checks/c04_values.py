"""C04 - handler results, success/failure/exception feedback and error isolation.

Engine E4: every program (handler shapes x flags x optional nested event) runs on a fresh real tree driven by
tick() until quiescent; oracle from the statement on the ghost log, the Value and the observed feedback events.
"""
import itertools

from mc import core, ghost

PROPERTY = 'C04'
LEVEL = 'model_checking'
RULE = ('every program = (0-3 handlers of event e with distinct priorities drawn from 19 shapes: return v / return 0 / return None / raise / return a nested Value / '
        'generator yielding 0-2 values (None or not) / generator raising at step 0 or 1) x (success, failure, notify, '
        'success_channels) x (optional nested event fired by a handler | the event fired twice: after the first settled / both in flight); each program executed once (programs with <= 2 handlers also with declared event classes deriving from a warm base class instead of Event.create), driven by tick() to '
        'quiescence; non-trivial = at least two different handler shapes or a raising/generator handler; distinct = distinct program')
ASSUMPTIONS = [
    'result values are ints (list-valued handler results are not in the alphabet)',
    'order of results = order in which the generated handlers produced them (ghost log)',
    'driver = tick() loop of the checking thread (documented application-specific main loop), horizon 60 ticks',
]


def shapes(i):
    """12 handler shapes for handler number i (values are unique per handler)."""
    b = 10 * (i + 1)
    return [
        ('R', [('ret', b + 1)]),
        ('N', [('ret', None)]),
        ('X', [('raise',)]),
        ('G0', ('gen', [])),
        ('Gn', ('gen', [('y', None)])),
        ('Gv', ('gen', [('y', b + 5)])),
        ('Gnv', ('gen', [('y', None), ('y', b + 5)])),
        ('Gvv', ('gen', [('y', b + 5), ('y', b + 6)])),
        ('Gvn', ('gen', [('y', b + 5), ('y', None)])),
        ('GX0', ('gen', [('raise',)])),
        ('GX1', ('gen', [('y', None), ('raise',)])),
        ('GvX', ('gen', [('y', b + 7), ('raise',)])),
        ('RVok', [('retfire', 'gok')]),      # returns the Value of a nested event whose handler returns a value
        ('RVx', [('retfire', 'gx')]),        # ... whose handler raises (that is not a raise of THIS event's handler)
        ('R0', [('ret', 0)]),                # falsy results are results (only None means "no result")
        ('G0v', ('gen', [('y', 0), ('y', b + 5)])),
        ('XB', [('raiseb',)]),               # raises a BaseException that is not an Exception (isolated like any other)
        ('GXB1', ('gen', [('y', None), ('raiseb',)])),
        ('RVV', [('retfire', 'g2')]),        # returns the Value of an event whose handler in turn returns the Value of a third event
    ]


NSH = 19
FLAGS = [dict(success=s, failure=f, notify=n, success_channels=sc)
         for s in (False, True) for f in (False, True) for n in (False, True) for sc in (None, ('other',))]
NESTED_SHAPES = [0, 2, 5, 10]   # R, X, Gv, GX1 for the nested event's handlers


def programs(tier):
    """yield (handler shape indices tuple, flag index, nested)   nested = None | (which handler fires f, f-handler shapes)"""
    maxh = 3
    for n in range(0, maxh + 1):   # n = 0: nobody handles the event at all
        for hs in itertools.product(range(NSH), repeat=n):
            for fi in range(len(FLAGS)):
                if tier == 'quick' and n == 3 and FLAGS[fi]['notify']:
                    continue
                yield hs, fi, None
    # nested: a plain handler (shape R or N) additionally fires f, whose handlers have their own shapes
    nest_h = [()] + list(itertools.product(NESTED_SHAPES, repeat=1)) + list(itertools.product(NESTED_SHAPES, repeat=2))
    maxn = 2 if tier == 'quick' else 3
    for n in range(1, maxn + 1):
        for hs in itertools.product(range(NSH), repeat=n):
            for who in range(n):
                if hs[who] not in (0, 1, 4, 5):   # (nested fire only from R, N, Gn, Gv shapes)
                    continue
                for fh in nest_h:
                    for fi in (3 * 4, 15) if tier == 'quick' else (0, 12, 15):
                        yield hs, fi, (who, fh)
    # repeat family: the same event type is fired twice in one world - the second one after the first has settled ('seq',
    # handler caches warm) or while the first is still in flight ('conc'); each instance is judged on its own
    for n in range(0, 3):
        for hs in itertools.product(range(NSH), repeat=n):
            for fi in range(len(FLAGS)):
                for mode in ('seq', 'conc'):
                    yield hs, fi, (mode,)


def is_repeat(nested):
    return nested is not None and nested[0] in ('seq', 'conc')


def build(program):
    hs, fi, nested = program
    if is_repeat(nested):
        nested = None
    handlers = []
    n = len(hs)
    for i, si in enumerate(hs):
        name, script = shapes(i)[si]
        if nested is not None and nested[0] == i:
            fire = ('fire', 'f', {'success': True, 'failure': True})
            if script[0] == 'gen':
                script = ('gen', [fire] + list(script[1]))
            else:
                script = [fire] + list(script)
        handlers.append(('e%d' % i, 'e', n - i, script))
    if nested is not None:
        for j, si in enumerate(nested[1]):
            name, script = shapes(5 + j)[si]
            handlers.append(('f%d' % j, 'f', 5 - j, script))
    handlers.append(('s0', 's', 0, [('ret', 99)]))
    handlers.append(('gok0', 'gok', 0, [('ret', 71)]))
    handlers.append(('gx0', 'gx', 0, [('raise',)]))
    handlers.append(('g20', 'g2', 0, [('retfire', 'gok')]))
    return handlers


def execute(program, style='create'):
    hs, fi, nested = program
    ghost.World.event_style = style
    # named observers only, so that an event without handlers really has none
    ghost.World.observe_names = ['e_success', 'e_failure', 'f_success', 'f_failure', 'exception', 'e_value_changed', 'gok', 'gx', 'g2']
    try:
        hl = build(program)
        w = ghost.World(hl)
        w.scripts = {h[0]: h[3] for h in hl}
    finally:
        ghost.World.observe_names = None
        ghost.World.event_style = 'create'
    w.event_style = style
    flags = FLAGS[fi]
    crashed = None
    quiescent = False
    try:
        if is_repeat(nested):
            w.value_by_eid = True
            e = w.fire('e', flags)
            if nested[0] == 'seq':
                w.settle()
            w.second = w.fire('e', flags)
            s = w.fire('s')
        else:
            e = w.fire('e', flags)
            s = w.fire('s')
        quiescent, ticks = w.settle()
    except BaseException as exc:  # noqa: BLE001 - an exception escaping tick() is itself a verdict
        crashed = repr(exc)
        quiescent, ticks = False, -1
    return w, e, s, quiescent, crashed


def judge_event(w, eid, hids, flags, shapes_of, bad, tag):
    log = w.log
    ev = w.events[eid]
    val = w.values[eid]
    vals = [x[3] for x in log if x[0] == 'val' and x[2] == eid]
    raises = sum(1 for v in vals if v == 'ERR')
    nested = [v for v in vals if isinstance(v, tuple) and v and v[0] == 'NESTED']

    def resolve(v):
        if isinstance(v, tuple) and v and v[0] == 'NESTED':
            inner = [resolve(x[3]) for x in log if x[0] == 'val' and x[2] == v[1]]
            return None if not inner else (inner[0] if len(inner) == 1 else inner)
        return v
    vals = [resolve(v) for v in vals]
    exp = None if not vals else (vals[0] if len(vals) == 1 else vals)
    got = ghost.snapv(val.value)
    raw = val.value
    if hasattr(raw, 'getValue') and hasattr(raw, 'errors'):
        # everything has settled: .value gives the result, however deep the chain of returned Values was - never a Value object
        # (a Value next to other results in a list is not judged, see below)
        bad.append((tag + 'value-unresolved', '.value of %s is a Value object instead of the result %r' % (tag, got)))
    if nested and len(vals) > 1:
        pass    # a nested (future) Value next to other results: how they combine is not stated by the property: not judged
    elif got != exp:
        bad.append((tag + 'value', 'Value of %s holds %r, handlers produced %r' % (tag, got, vals)))
    if nested:
        # whether a failure inside the nested event counts as one of this event is not stated by the property: not judged; that a
        # raise of one of THIS event's handlers sets the flag is stated, whatever else the handlers return
        if raises and not val.errors:
            bad.append((tag + 'errors-flag:lost-next-to-nested-value', 'errors flag is %r although %d handler(s) of the event raised (another handler returned the '
                        'Value of a nested event)' % (val.errors, raises)))
    elif bool(val.errors) != bool(raises):
        bad.append((tag + 'errors-flag', 'errors flag is %r although %d handler(s) raised' % (val.errors, raises)))
    for h in hids:
        n = sum(1 for x in log if x[0] == 'enter' and x[1] == h and x[2] == eid)
        if n != 1:
            bad.append((tag + 'handler-runs', 'handler %s of %s ran %d times' % (h, tag, n)))
    excs = [x for x in log if x[0] == 'obs' and x[1] == 'exception' and x[3] == eid]
    nexc = len(excs)
    if nexc != raises:
        bad.append((tag + 'exception-count', '%d exception event(s) for %d raising handler(s)' % (nexc, raises)))
    else:
        # each exception event describes one of the raises: exception(type, value, traceback, handler=, fevent=)
        raisers = sorted(x[1] for x in log if x[0] == 'val' and x[2] == eid and x[3] == 'ERR')
        named = sorted(eval(x[4][1])[0] if x[4] and x[4][1] and x[4][1].startswith('(') else repr(x[4]) for x in excs)
        if named != raisers:
            bad.append((tag + 'exception-args', 'the exception events carry the errors of %r, the handlers that raised are %r' % (named, raisers)))
        for x in excs:
            typ, eargs, hname, tb_is_list = x[4]
            if typ not in ('Boom', 'BoomBase') or not tb_is_list:
                bad.append((tag + 'exception-args', 'exception event with type %r / traceback-is-a-list %r' % (typ, tb_is_list)))
            hid = eval(eargs)[0] if eargs and eargs.startswith('(') else None
            plain = hid is not None and not any(y[0] == 'step' and y[1] == hid and y[2] == eid for y in log) \
                and not isinstance(dict(handler_scripts(w)).get(hid), tuple)
            if hname not in ((None, 'gh_%s' % hid) if not plain else ('gh_%s' % hid,)):
                bad.append((tag + 'exception-args', 'exception event for the raise of %s names handler %r' % (hid, hname)))
    name = ev.name
    nfail = sum(1 for x in log if x[0] == 'obs' and x[1] == name + '_failure' and x[2] == eid)
    for x in log:
        if x[0] == 'obs' and x[1] == name + '_failure' and x[2] == eid and x[4] != (True, repr('ERR')):
            bad.append((tag + 'failure-args', '%s_failure carries %r instead of (the event, the error triple)' % (name, x[4])))
    expf = raises if flags.get('failure') else 0
    if nfail != expf:
        bad.append((tag + 'failure-count', '%d %s_failure event(s), expected %d (failure=%r, %d raise(s))'
                    % (nfail, name, expf, flags.get('failure'), raises)))
    succ = [i for i, x in enumerate(log) if x[0] == 'obs' and x[1] == name + '_success' and x[2] == eid]
    exps = 1 if (flags.get('success') and not raises) else 0
    if len(succ) != exps:
        what = 'although a handler raised' if raises and succ else ''
        bad.append((tag + ('success-after-failure' if raises and succ else 'success-count'),
                    '%d %s_success event(s), expected %d %s' % (len(succ), name, exps, what)))
    elif succ:
        sig = log[succ[0]][4]
        if not nested and sig != (True, repr(exp)):
            bad.append((tag + 'success-args', '%s_success carries %r instead of (the event, its value %r)' % (name, sig, exp)))
        last = max([i for i, x in enumerate(log) if x[0] in ('enter', 'exit', 'step', 'val') and x[2] == eid] or [-1])
        if succ[0] < last:
            bad.append((tag + 'success-early', '%s_success dispatched before the last handler activity' % name))


def handler_scripts(w):
    return getattr(w, 'scripts', {}).items()


def judge(program, w, e, s, quiescent, crashed):
    hs, fi, nested = program
    bad = []
    if crashed:
        bad.append(('crash', 'exception escaped tick(): %s' % crashed))
        return bad
    if not quiescent:
        bad.append(('no-quiescence', 'queue/tasks not empty after the horizon'))
    flags = FLAGS[fi]
    judge_event(w, e.eid, ['e%d' % i for i in range(len(hs))], flags, hs, bad, 'e:')
    if not any(x[0] == 'enter' and x[1] == 's0' for x in w.log):
        bad.append(('sentinel', 'the later event s was never dispatched'))
    if is_repeat(nested):
        judge_event(w, w.second.eid, ['e%d' % i for i in range(len(hs))], flags, hs, bad, 'second e (%s):' % nested[0])
    elif nested is not None:
        fe = [x[1] for x in w.log if x[0] == 'fire' and x[2] == 'f']
        if len(fe) != 1:
            bad.append(('harness', 'nested event fired %d times' % len(fe)))
        else:
            judge_event(w, fe[0], ['f%d' % j for j in range(len(nested[1]))], {'success': True, 'failure': True}, nested[1], bad, 'f:')
    return bad


def signature(program, kind):
    """Known-finding signature: which feedback was wrong + multiset of handler shape classes + relevant flags."""
    hs, fi, nested = program
    names = sorted({shapes(0)[si][0].rstrip('0123456789nv') or shapes(0)[si][0] for si in hs})
    return '%s|%s' % (kind, '+'.join(names))


def _work(part, nparts, payload):
    tier, seed = payload
    core.quiet_stderr()
    st = core.Stats()
    for idx, program in enumerate(itertools.islice(programs(tier), part, None, nparts)):
        w, e, s, quiescent, crashed = execute(program)
        st.executions += 1
        st.transitions += len(w.log)
        bad = judge(program, w, e, s, quiescent, crashed)
        if len(program[0]) <= 2:
            # ... and once more with declared event classes deriving from a base class that is warm (see mc/ghost.py)
            w2, e2, s2, q2, c2 = execute(program, 'classes')
            st.executions += 1
            st.counters['programs_also_run_with_declared_event_classes'] += 1
            bad = bad + [(k + ':event-classes', t + ' [events are instances of declared classes with a common, warm base class]')
                         for k, t in judge(program, w2, e2, s2, q2, c2) if (k, t) not in bad]
        st.outcome(tuple(x for x in w.log if x[0] in ('obs', 'val')))
        hs = program[0]
        if any(si in (12, 13, 18) for si in hs):
            st.counters['programs_returning_a_nested_value'] += 1
        if len(set(hs)) > 1 or any(si >= 2 for si in hs):
            st.interesting(program)
        if any(si == 2 for si in hs) and any(si >= 3 for si in hs):
            st.counters['programs_mixing_raise_and_generator'] += 1
        if is_repeat(program[2]):
            st.counters['programs_firing_the_event_twice'] += 1
        elif program[2] is not None:
            st.counters['programs_with_nested_event'] += 1
        if part == seed % nparts and idx in (7, 500):
            st.sample({'program': prog_json(program), 'log': [list(x) for x in w.log][:40]})
        for kind, text in bad:
            st.fail(kind, '%s  [program %r]' % (text, prog_json(program)), prog_json(program))
    return st


# ---- two independent managers in one process: nothing of one tree's event processing may happen in the other ------------------

def two_managers_cases():
    for ka in (1, 2, 3):
        for kb in (0, 2):
            for order in itertools.product('AB', repeat=6):
                yield ka, kb, ''.join(order)


def run_two_managers(case):
    """plain Manager trees without any harness substitution (the trees keep the task sets the library gives them)"""
    from circuits.core.components import BaseComponent
    from circuits.core.events import Event
    from circuits.core.handlers import handler
    ka, kb, order = case
    logs = {'A': [], 'B': []}
    trees = {}
    for tag, k in (('A', ka), ('B', kb)):
        root = BaseComponent()

        def make(tag, k):
            def on_e(self, event, *a):
                logs[tag].append(('enter', tag))
                for i in range(k):
                    yield None
                    logs[tag].append(('step', tag, i))
                yield tag + '-result'

            def on_plain(self, event, *a):
                logs[tag].append(('enter', tag))
                return tag + '-result'

            def on_success(self, event, e, value):
                logs[tag].append(('success', getattr(e, 'tag', None), value))

            def on_exc(self, event, *a, **kw):
                logs[tag].append(('exception', repr(a[1]) if len(a) > 1 else None))
            return (on_e if k else on_plain), on_success, on_exc
        h, hs, hx = make(tag, k)
        root.addHandler(handler('e')(h))
        root.addHandler(handler('e_success')(hs))
        root.addHandler(handler('exception', channel='*')(hx))
        trees[tag] = root
    values = {}
    for tag in 'AB':
        e = Event.create('e')
        e.success = True
        e.tag = tag
        values[tag] = trees[tag].fire(e)
    crashed = None
    try:
        for who in order:
            trees[who].tick()
        for _ in range(8):
            for who in 'AB':
                trees[who].tick()
    except BaseException as exc:  # noqa: BLE001
        crashed = repr(exc)
    return logs, {t: (values[t].value, values[t].errors) for t in 'AB'}, crashed


def judge_two_managers(case, logs, values, crashed):
    bad = []
    if crashed:
        bad.append(('two-managers:crash', 'tick() raised %s' % crashed))
    for tag in 'AB':
        other = 'B' if tag == 'A' else 'A'
        foreign = [x for x in logs[tag] if (x[0] in ('enter', 'step') and x[1] != tag) or (x[0] == 'success' and x[1] != tag)]
        if foreign:
            bad.append(('two-managers:foreign-activity', 'tree %s saw activity of tree %s: %r' % (tag, other, foreign[:3])))
        succ = [x for x in logs[tag] if x[0] == 'success']
        if succ != [('success', tag, tag + '-result')]:
            bad.append(('two-managers:success', 'tree %s: e_success events %r, expected exactly one with its own result' % (tag, succ)))
        if values[tag] != (tag + '-result', False):
            bad.append(('two-managers:value', 'tree %s: value %r of its event, expected %r' % (tag, values[tag], (tag + '-result', False))))
        excs = [x for x in logs[tag] if x[0] == 'exception']
        if excs:
            bad.append(('two-managers:exception', 'tree %s: exception events although no handler raised: %r' % (tag, excs[:2])))
    return bad


def prog_json(program):
    hs, fi, nested = program
    return {'handlers': [shapes(0)[si][0] for si in hs], 'hs': list(hs), 'flags_index': fi, 'flags': FLAGS[fi],
            'nested': None if nested is None else ([nested[0]] if is_repeat(nested) else [nested[0], list(nested[1])])}


def run(tier, seed, workers):
    total = sum(2 if len(p[0]) <= 2 else 1 for p in programs(tier))      # (programs with <= 2 handlers run in both event styles)
    st = core.parallel(_work, (tier, seed), workers, nparts=workers * 4)
    for case in two_managers_cases():
        logs, values, crashed = run_two_managers(case)
        st.counters['two_manager_interleavings'] += 1
        st.outcome(('two', case[0], case[1], tuple(map(tuple, logs['A'])), tuple(map(tuple, logs['B']))))
        for kind, text in judge_two_managers(case, logs, values, crashed):
            st.fail(kind, '%s  [generator steps A=%d B=%d, tick order %s then alternating]' % (text, case[0], case[1], case[2]),
                    {'two_managers': list(case)})
    probe = ((2, 5), 15, None)
    a = execute(probe)[0].log
    b = execute(probe)[0].log
    if a != b:
        st.selfcheck_errors.append('determinism: two runs of one program differ')
    if st.executions != total:
        st.selfcheck_errors.append('enumeration: %d of %d' % (st.executions, total))
    st.states = len(st.outcomes)
    st.bounds = {'programs': total, 'max_handlers_per_event': 3, 'shapes': NSH, 'flag_sets': len(FLAGS),
                 'nested_event_depth': 1, 'tick_horizon': 60}
    if not st.counters['programs_mixing_raise_and_generator']:
        st.selfcheck_errors.append('vacuity: raise + generator never combined')
    return st


def replay(wit):
    if 'two_managers' in wit:
        case = tuple(wit['two_managers'])
        logs, values, crashed = run_two_managers(case)
        bad = judge_two_managers(case, logs, values, crashed)
        text = 'two independent managers, case %r\nlogs %r\nvalues %r crashed %r\n' % (case, logs, values, crashed)
        text += ''.join('VIOLATED %s: %s\n' % b for b in bad) or 'all clauses hold\n'
        return (not bad), text
    nested = None if wit['nested'] is None else ((wit['nested'][0],) if len(wit['nested']) == 1 else (wit['nested'][0], tuple(wit['nested'][1])))
    program = (tuple(wit['hs']), wit['flags_index'], nested)
    w, e, s, quiescent, crashed = execute(program)
    bad = judge(program, w, e, s, quiescent, crashed)
    if not bad and len(program[0]) <= 2:
        w, e, s, quiescent, crashed = execute(program, 'classes')
        bad = [(k + ':event-classes', t) for k, t in judge(program, w, e, s, quiescent, crashed)]
    text = 'program %r\nlog:\n  %s\nValue: %r errors=%r\n' % (prog_json(program), '\n  '.join(map(repr, w.log)),
                                                           ghost.snapv(w.values[e.eid].value), w.values[e.eid].errors)
    text += ''.join('VIOLATED %s: %s\n' % b for b in bad) or 'all clauses hold\n'
    return (not bad), text
