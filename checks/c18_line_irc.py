"""C18 - the line protocol is segmentation-invariant; IRC command messages are exactly one line and round-trip.

Engine E4, four exhaustively enumerated families, every element executed on fresh real circuits objects:

  LC  line protocol, client mode:  every distinct byte stream of 1..K tokens from {a, e-acute (2 bytes), CR, LF, CRLF}
      x every composition of it into non-empty reads (all 2^(n-1) up to 7 / 9 bytes (quick / thorough), longer streams:
      every composition with <= 2 / 3 cuts and byte-at-a-time); after the stream one more read b'\\n' ("terminator probe")
      makes the held tail observable through public events only.
  LS  line protocol, server mode:  two sockets with disjoint letters, every pair of (stream, composition) with at most
      SEG segments in total x every interleaving of the two segment sequences; then a terminator probe per socket.
  IR  IRC serialisation: Message(cmd, *args[, prefix=p]) and every constructor of irc/commands.py (found by
      introspection) applied to every argument tuple over the alphabet ARGS (optional parameters also omitted).
  IP  IRC pipeline: constructor -> request event -> real IRC component -> captured write -> bytes cut into reads ->
      real IRC component (Line + parsemsg) -> the response event must carry the command, prefix and arguments.

  I2  two IRC components side by side on two channels: two message streams, each cut at every position, every
      interleaving of the reads; each channel must see the response events of its own stream (as a lone component does).

Oracles are written from the property statement:
  line: after every read the lines emitted so far (per socket) are exactly the complete lines of the bytes received so
        far (per socket) by a byte-scanning reference (terminator LF, one optional CR before it is dropped); after the
        probe the tail shows up exactly once; nothing of socket A ever appears in a line of socket B.
  irc:  construction/serialisation either raises the package's Error (or ValueError), or bytes(msg) ends in CRLF, has no
        other CR or LF, is one line for the library's own splitter, and parsemsg() of that line gives back
        parseprefix(msg.prefix), msg.command and msg.args, and so does Message.from_string() of it; a constructor
        NAME(...) yields command NAME carrying the non-omitted arguments.
"""
import inspect
import itertools
from collections import defaultdict

from circuits import Component, Event
from circuits.protocols.irc import IRC, commands as irc_commands
from circuits.protocols.irc import message as irc_message
from circuits.protocols.irc import utils as irc_utils
from circuits.protocols.line import Line, splitLines

from mc import core

PROPERTY = 'C18'
LEVEL = 'model_checking'
RULE = ('LC: every distinct byte stream of <= K tokens over {a, e-acute, CR, LF, CRLF} x every composition into reads (see bounds), fed to a '
        'fresh Line under tick()-style flushing, + terminator probe; LS: every pair of (stream, composition) for two sockets '
        'with <= SEG segments in total x every interleaving; IR: Message(cmd, *args, prefix=p) and each constructor of '
        'irc/commands.py x every argument tuple over the 14-string alphabet (arity bounds in `bounds`; also as bytes); IP: constructors x '
        'benign arguments through two real IRC components x every single cut / byte-at-a-time; I2: two IRC components on two channels x two streams each cut at every position x every interleaving of the reads. non-trivial: line case with '
        'a terminator and >= 2 reads; IRC case with at least one argument/prefix/command other than a plain word; '
        'distinct = distinct (family, input, segmentation)')
ASSUMPTIONS = [
    'reads are non-empty byte strings (an empty read is how circuits signals EOF, it is not delivered as data)',
    'server mode: getBuffer/updateBuffer are a per-socket dict as in the documentation and tests/protocols/test_line.py',
    'a deliberate refusal is irc.message.Error / irc.utils.Error / ValueError; any other exception type is a crash',
    'round trip is judged on the Message\'s own public fields (command, prefix, args) through parsemsg/parseprefix, and '
    'through Message.from_string(line) (bytes, without the terminator) whose prefix is compared through parseprefix',
    'argument alphabet: x, "", " ", "x y", ":x", "x:y", CR, aCRb, LF, aLFb, xLF, xCR, NUL, e-acute; given as str, and as utf-8 bytes '
    'for Message("CMD", ...) up to arity 3',
    'driver = fire() + flush() until the queue is empty (documented application-specific main loop), horizon 50 passes',
]

# ------------------------------------------------------------------------------------------------
# line protocol

E_ACUTE = '\u00e9'.encode('utf-8')
U_UML = '\u00fc'.encode('utf-8')
TOK_A = (b'a', E_ACUTE, b'\r', b'\n', b'\r\n')
TOK_B = (b'b', U_UML, b'\r', b'\n', b'\r\n')
LETTERS_A = set(b'a' + E_ACUTE)
LETTERS_B = set(b'b' + U_UML)
HORIZON = 50


class read(Event):
    """read Event"""


class Sink(Component):
    def init(self):
        self.got = []
        self.errors = []

    def line(self, *args):
        self.got.append(args)

    def exception(self, etype, evalue, tb, handler=None, fevent=None):
        self.errors.append('%s: %s' % (getattr(etype, '__name__', etype), evalue))


def settle(app):
    n = 0
    while len(app):
        app.flush()
        n += 1
        if n > HORIZON:
            return False
    return True


def streams(tokens, k):
    """distinct byte streams of 1..k tokens, shortest first, deterministic order"""
    seen = set()
    out = []
    for n in range(1, k + 1):
        for ts in itertools.product(tokens, repeat=n):
            s = b''.join(ts)
            if s not in seen:
                seen.add(s)
                out.append(s)
    return out


def cut(stream, mask):
    """composition of the stream: bit i of mask set = cut after byte i"""
    segs = []
    start = 0
    for i in range(len(stream) - 1):
        if mask >> i & 1:
            segs.append(stream[start:i + 1])
            start = i + 1
    segs.append(stream[start:])
    return segs


def ref_lines(data):
    """Reference: the complete lines of a byte stream (LF or CRLF terminated) - a byte scan, no regex."""
    lines = []
    cur = bytearray()
    for byte in data:
        if byte == 0x0a:
            if cur and cur[-1] == 0x0d:
                del cur[-1]
            lines.append(bytes(cur))
            cur = bytearray()
        else:
            cur.append(byte)
    return lines


def client_masks(stream, tier):
    """compositions of a client stream: all 2^(n-1) up to FULL_BYTES[tier] bytes; longer streams get every composition
    with at most MAX_CUTS[tier] cuts plus byte-at-a-time"""
    n = len(stream)
    if n <= FULL_BYTES[tier]:
        return range(1 << (n - 1))
    out = [0]
    for k in range(1, MAX_CUTS[tier] + 1):
        for pos in itertools.combinations(range(n - 1), k):
            out.append(sum(1 << i for i in pos))
    out.append((1 << (n - 1)) - 1)
    return out


FULL_BYTES = {'quick': 7, 'thorough': 9}
MAX_CUTS = {'quick': 2, 'thorough': 3}


def cut_context(before, seg_count):
    """where the read boundary in front of the failing read fell"""
    if seg_count == 1 or not before:
        return 'within-one-read'
    if before.endswith(b'\r'):
        return 'cut-after-CR'
    if before[-1] in (E_ACUTE[0], U_UML[0]):
        return 'cut-in-multibyte'
    return 'cut-elsewhere'


def effect_of(got, exp):
    if got == exp:
        return None
    if len(got) < len(exp) and got == exp[:len(got)]:
        return 'line-missing'
    if len(got) > len(exp) and got[:len(exp)] == exp:
        return 'line-too-early-or-extra'
    return 'line-content-wrong'


def exec_client(stream, mask):
    """-> (observation, failure or None)   failure = (signature, text)"""
    app = Sink()
    Line().register(app)
    settle(app)
    segs = cut(stream, mask)
    obs = []
    fail = None
    done = b''
    for seg in segs:
        app.fire(read(seg))
        quiet = settle(app)
        before, done = done, done + seg
        got = [a[0] if len(a) == 1 else a for a in app.got]
        obs.append(tuple(got))
        if fail is None:
            eff = effect_of(got, ref_lines(done))
            if app.errors:
                eff = 'handler-raised'
            elif not quiet:
                eff = 'no-quiescence'
            if eff:
                fail = ('line:client:%s:%s' % (cut_context(before, len(segs)), eff),
                        'after reads %r the line events are %r, the bytes received contain the lines %r%s'
                        % (segs[:len(obs)], got, ref_lines(done), ' errors=%r' % app.errors if app.errors else ''))
    app.fire(read(b'\n'))
    settle(app)
    got = [a[0] if len(a) == 1 else a for a in app.got]
    obs.append(tuple(got))
    if fail is None:
        eff = effect_of(got, ref_lines(stream + b'\n'))
        if app.errors:
            eff = 'handler-raised'
        if eff:
            fail = ('line:client:tail-probe:%s' % eff,
                    'reads %r then b"\\n": line events %r, expected %r (the unterminated tail was not held intact)'
                    % (segs, got, ref_lines(stream + b'\n')))
    return tuple(obs), fail


class Sock:
    """stand-in for a client socket in server mode (only identity / hashing is used by Line)"""

    def __init__(self, name):
        self.name = name

    def __repr__(self):
        return self.name


def exec_server(sa, ma, sb, mb, order):
    buffers = defaultdict(bytes)
    app = Sink()
    Line(getBuffer=buffers.__getitem__, updateBuffer=buffers.__setitem__).register(app)
    settle(app)
    socks = {'A': Sock('A'), 'B': Sock('B')}
    segs = {'A': cut(sa, ma), 'B': cut(sb, mb)}
    pos = {'A': 0, 'B': 0}
    done = {'A': b'', 'B': b''}
    foreign = {'A': LETTERS_B, 'B': LETTERS_A}
    obs = []
    fail = None
    pending_hits = 0

    def per_sock():
        out = {'A': [], 'B': [], '?': []}
        for a in app.got:
            if len(a) == 2 and a[0] is socks['A']:
                out['A'].append(a[1])
            elif len(a) == 2 and a[0] is socks['B']:
                out['B'].append(a[1])
            else:
                out['?'].append(a)
        return out

    def judge(step, which, whole):
        got = per_sock()
        obs.append((tuple(got['A']), tuple(got['B']), len(got['?'])))
        if app.errors:
            return ('line:server:handler-raised', '%s: handler raised %r' % (step, app.errors))
        if got['?']:
            return ('line:server:line-without-socket', '%s: line events %r carry no known socket' % (step, got['?']))
        for k in 'AB':
            exp = ref_lines(whole[k])
            eff = effect_of(got[k], exp)
            if eff:
                mixed = any(set(x) & foreign[k] for x in got[k] if isinstance(x, bytes)) \
                    or (k != which and eff != 'line-missing')
                tag = 'tails-of-sockets-mixed' if mixed or any(
                    set(x) & foreign[o] for o in 'AB' if o != k for x in got[o] if isinstance(x, bytes)) else eff
                return ('line:server:%s' % tag,
                        '%s: socket %s has line events %r, its bytes so far %r contain the lines %r (other socket: %r)'
                        % (step, k, got[k], whole[k], exp, got['B' if k == 'A' else 'A']))
        return None

    for n, k in enumerate(order):
        other = 'B' if k == 'A' else 'A'
        if done[other] and not done[other].endswith(b'\n'):
            pending_hits += 1
        seg = segs[k][pos[k]]
        pos[k] += 1
        app.fire(read(socks[k], seg))
        settle(app)
        done[k] += seg
        f = judge('after read #%d (%s, %r) of order %s' % (n + 1, k, seg, order), k, done)
        fail = fail or f
    for k in 'AB':
        app.fire(read(socks[k], b'\n'))
        settle(app)
        done[k] += b'\n'
        f = judge('after the terminator probe on %s' % k, k, done)
        if f and not fail:
            fail = (f[0] if 'mixed' in f[0] else 'line:server:tail-probe:' + f[0].rsplit(':', 1)[1], f[1])
    return tuple(obs), fail, pending_hits


def interleavings(m, n):
    for pos in itertools.combinations(range(m + n), m):
        s = ['B'] * (m + n)
        for p in pos:
            s[p] = 'A'
        yield ''.join(s)


def compositions(stream, maxseg):
    n = len(stream)
    for mask in range(1 << (n - 1)):
        if bin(mask).count('1') + 1 <= maxseg:
            yield mask


def server_pairs(tier):
    """(sa, sb) pairs; the worker enumerates compositions and interleavings"""
    ka, kb = SERVER_K[tier]
    for sa in streams(TOK_A, ka):
        for sb in streams(TOK_B, kb):
            yield sa, sb


SEG_TOTAL = {'quick': 6, 'thorough': 6}
SERVER_K = {'quick': (2, 2), 'thorough': (3, 2)}
CLIENT_K = {'quick': 5, 'thorough': 6}

# ------------------------------------------------------------------------------------------------
# IRC

ARGS = ('x', '', ' ', 'x y', ':x', 'x:y', '\r', 'a\rb', '\n', 'a\nb', 'x\n', 'x\r', '\0', '\u00e9',
        'x ', ' x', 'x\t', 'x  y')   # incl. a line end at the END of a value, white space at either end, a tab, a double space
PREFIXES = ARGS + ('n!u@h', 'n@h', 'irc.example.org', 'n!u', 'n!@h', '!u@h')     # every shape a prefix can take (server name, nick, nick@host, ...)
PARSED_BACK = ('ok', 'from_string-raises', 'from_string-differs')   # parsemsg() gave the fields back
REFUSALS = (irc_message.Error, irc_utils.Error, ValueError)
BENIGN = ('x', 'x y', 'x:y', '\u00e9', 'x ', 'x\t')


def ctor_table():
    """name -> (required, optional, varargs) for every public function defined in irc/commands.py"""
    tab = {}
    for name, fn in sorted(vars(irc_commands).items()):
        if not inspect.isfunction(fn) or fn.__module__ != irc_commands.__name__ or name.startswith('_'):
            continue
        req = opt = 0
        var = False
        for p in inspect.signature(fn).parameters.values():
            if p.kind == p.VAR_POSITIONAL:
                var = True
            elif p.kind in (p.POSITIONAL_ONLY, p.POSITIONAL_OR_KEYWORD):
                if p.default is p.empty:
                    req += 1
                else:
                    opt += 1
        tab[name] = (req, opt, var)
    return tab


CTORS = ctor_table()


def irc_groups(tier):
    """work items: ('M', cmd, has_prefix, prefix, arities) | ('C', name, nvar)"""
    big = tier != 'quick'
    for n in range(0, 5):
        yield ('M', 'CMD', False, None, (n,))
    for n in range(1, 4):
        yield ('B', n)          # the same tuples given as utf-8 bytes (Message decodes them)
    for cmd in ARGS:
        for hp, p in [(False, None)] + [(True, a) for a in PREFIXES]:
            if cmd == 'CMD' and not hp:
                continue
            for n in range(0, 4 if big else 3):     # one work item per arity (load balance)
                yield ('M', cmd, hp, p, (n,))
    for name, (req, opt, var) in sorted(CTORS.items()):
        if var:
            for nvar in range(0, 4 if big else 3):
                yield ('C', name, nvar)
        else:
            yield ('C', name, 0)


def group_cases(group):
    if group[0] == 'B':
        for args in itertools.product(ARGS, repeat=group[1]):
            yield {'ctor': 'Message', 'command': 'CMD', 'has_prefix': False, 'prefix': None, 'args': list(args), 'as_bytes': True}
    elif group[0] == 'M':
        _, cmd, hp, p, arities = group
        for n in arities:
            for args in itertools.product(ARGS, repeat=n):
                yield {'ctor': 'Message', 'command': cmd, 'has_prefix': hp, 'prefix': p, 'args': list(args)}
    else:
        _, name, nvar = group
        req, opt, var = CTORS[name]
        doms = [ARGS] * req + [ARGS + (None,)] * opt + [ARGS] * nvar
        for args in itertools.product(*doms):
            yield {'ctor': name, 'command': name, 'has_prefix': False, 'prefix': None, 'args': list(args)}


def hazard(position, v):
    """character class that makes a field value delicate in that position, or None"""
    if v is None:
        return 'None' if position == 'command' else None
    if '\n' in v:
        return 'LF'
    if '\r' in v:
        return 'CR'
    if position == 'prefix':
        return 'space' if ' ' in v else None
    if v == '':
        return 'empty'
    if ' ' in v and position != 'arg-last':
        return 'space'
    if v.startswith(':'):
        return 'leading-colon'
    return None


def fields(case):
    """[(position, key, value)] of a case in precedence order command, prefix, non-last args, last arg"""
    out = []
    if case['ctor'] == 'Message':
        out.append(('command', 'command', case['command']))
        if case['has_prefix']:
            out.append(('prefix', 'prefix', case['prefix']))
    given = [(i, a) for i, a in enumerate(case['args']) if a is not None]
    if case['ctor'] != 'Message' and len(given) > 1:
        # a constructor may put its parameters on the wire in another order (WHOIS: server first): "last" is the
        # message's own last argument
        try:
            last = build_message(case).args[-1]
            k = max(j for j, (i, a) in enumerate(given) if a == last)
            given.append(given.pop(k))
        except Exception:  # noqa: BLE001 - refused or unknown layout: call order
            pass
    for j, (i, a) in enumerate(given):
        out.append(('arg-last' if j == len(given) - 1 else 'arg-nonlast', i, a))
    return out


def build_message(case):
    args = case['args']
    if case.get('as_bytes'):
        args = [a.encode('utf-8') for a in args]
    if case['ctor'] == 'Message':
        kw = {'prefix': case['prefix']} if case['has_prefix'] else {}
        return irc_message.Message(case['command'], *args, **kw)
    ev = getattr(irc_commands, case['ctor'])(*args)
    for a in ev.args:
        if isinstance(a, irc_message.Message):
            return a
    raise TypeError('%s() returned %r without a Message' % (case['ctor'], ev))


def run_irc(case):
    """-> (status, wire, detail)   status: 'rejected' | 'ok' | failure effect"""
    try:
        msg = build_message(case)
        wire = bytes(msg)
    except REFUSALS as exc:
        return 'rejected', None, '%s: %s' % (type(exc).__name__, exc)
    except Exception as exc:  # noqa: BLE001 - any other exception type is a crash, a verdict
        return 'crash-%s' % type(exc).__name__, None, repr(exc)
    if not isinstance(wire, bytes):
        return 'not-bytes', None, repr(wire)
    if not wire.endswith(b'\r\n'):
        return 'no-CRLF-terminator', wire, 'serialises to %r' % wire
    body = wire[:-2]
    if b'\n' in body:
        return 'LF-in-line', wire, 'serialises to %r: %d lines on the wire' % (wire, len(ref_lines(wire)))
    if b'\r' in body:
        return 'CR-in-line', wire, 'serialises to %r: a bare CR inside the line' % wire
    lines, tail = splitLines(wire, b'')
    if lines != [body] or tail != b'':
        return 'not-one-line-for-splitter', wire, 'splitLines(%r) -> %r + %r' % (wire, lines, tail)
    given = [a for a in case['args'] if a is not None]
    if case['ctor'] != 'Message':
        cmd = getattr(msg, 'command', None)
        margs = list(getattr(msg, 'args', given))
        if cmd != case['ctor'] or sorted(margs) != sorted(given):
            return ('ctor-mapping', wire, '%s(%s) built a message with command %r and arguments %r (wire %r)'
                    % (case['ctor'], ', '.join(map(repr, case['args'])), cmd, margs, wire))
    if case.get('as_bytes') and list(getattr(msg, 'args', given)) != given:
        return ('bytes-arguments-not-decoded', wire, 'bytes arguments %r became the message arguments %r (wire %r)'
                % ([a.encode('utf-8') for a in given], list(msg.args), wire))
    try:
        pfx, cmd, pargs = irc_utils.parsemsg(body)
    except Exception as exc:  # noqa: BLE001
        return 'parse-crash-%s' % type(exc).__name__, wire, 'parsemsg(%r) raised %r' % (body, exc)
    exp_cmd = getattr(msg, 'command', case['command'])
    exp_args = list(getattr(msg, 'args', given))
    mp = getattr(msg, 'prefix', case['prefix'] if case['has_prefix'] else None)
    exp_pfx = irc_utils.parseprefix(mp) if mp is not None else (None, None, None)
    if (tuple(pfx), cmd, list(pargs)) != (tuple(exp_pfx), exp_cmd, exp_args):
        return ('not-roundtrip', wire, 'wire %r parses to prefix=%r command=%r args=%r, the message has prefix=%r command=%r args=%r'
                % (wire, tuple(pfx), cmd, list(pargs), tuple(exp_pfx), exp_cmd, exp_args))
    from_string = getattr(irc_message.Message, 'from_string', None)
    if from_string is not None:
        try:
            m2 = from_string(body)
            got = (tuple(irc_utils.parseprefix(m2.prefix)) if m2.prefix is not None else (None, None, None), m2.command, list(m2.args))
        except Exception as exc:  # noqa: BLE001
            return 'from_string-raises', wire, 'Message.from_string(%r) raised %r' % (body, exc)
        if got != (tuple(exp_pfx), exp_cmd, exp_args):
            return ('from_string-differs', wire, 'Message.from_string(%r) has prefix=%r (-> %r) command=%r args=%r, the serialised message had prefix=%r (-> %r) command=%r args=%r'
                    % (body, m2.prefix, got[0], got[1], got[2], mp, tuple(exp_pfx), exp_cmd, exp_args))
    return 'ok', wire, ''


def neutralise(case, key):
    c = dict(case, args=list(case['args']))
    if key == 'command':
        c['command'] = 'CMD'
    elif key == 'prefix':
        c['has_prefix'], c['prefix'] = False, None
    else:
        c['args'][key] = 'x'
    return c


def classify_irc(case, status):
    """signature of a failing IRC case: the hazards that remain after greedily neutralising those not needed to fail."""
    if case['ctor'] != 'Message':
        # a constructor that does not even map plain words to its own command is reported as that, whatever else happens
        plain = dict(case, args=[None if a is None else 'x' for a in case['args']])
        if status == 'ctor-mapping' or run_irc(plain)[0] == 'ctor-mapping':
            return 'irc:ctor-%s:builds-another-command-or-arguments' % case['ctor'], (case if status == 'ctor-mapping' else plain)
    cur, cur_status = case, status
    for pos, key, v in fields(case):
        if hazard(pos, v) is None:
            continue
        trial = neutralise(cur, key)
        st = run_irc(trial)[0]
        if st == cur_status:      # still fails in the same way without this hazard: it is not needed
            cur = trial
    if cur_status == 'ctor-mapping':
        return 'irc:ctor-%s:builds-another-command-or-arguments' % case['ctor'], cur
    left = ['%s:%s' % (pos, hazard(pos, v)) for pos, key, v in fields(cur) if hazard(pos, v) is not None]
    return 'irc:%s:%s' % ('+'.join(left) or 'plain-words', cur_status), cur


# ---- pipeline through real IRC components


class Collector(Component):
    def init(self):
        self.writes = []
        self.seen = []
        self.errors = []

    def write(self, *args):
        self.writes.append(args)

    def exception(self, etype, evalue, tb, handler=None, fevent=None):
        self.errors.append('%s: %s' % (getattr(etype, '__name__', etype), evalue))


SKIP_NAMES = {'registered', 'read', 'line', 'write', 'request', 'exception', 'unregistered', 'prepare_unregister'}


def pipe_cases():
    for name, (req, opt, var) in sorted(CTORS.items()):
        doms = [BENIGN] * req + [BENIGN + (None,)] * opt + ([BENIGN] if var else [])
        for args in itertools.product(*doms):
            given = [a for a in args if a is not None]
            if any(' ' in a for a in given[:-1]):
                continue
            yield name, list(args)


def pipe_masks(n):
    """one piece, every single cut, byte-at-a-time"""
    yield 0
    for i in range(n - 1):
        yield 1 << i
    if n > 2:
        yield (1 << (n - 1)) - 1


def exec_pipe(name, args, mask, server):
    """-> (obs, failure)"""
    out = Collector()
    IRC().register(out)
    settle(out)
    ev = getattr(irc_commands, name)(*args)
    msg = [a for a in ev.args if isinstance(a, irc_message.Message)][0]
    given = list(getattr(msg, 'args', [a for a in args if a is not None]))
    out.fire(ev)
    settle(out)
    if out.errors or len(out.writes) != 1 or len(out.writes[0]) != 1 or not isinstance(out.writes[0][0], bytes):
        return ('no-write', tuple(out.errors)), ('irc:pipeline:request-not-written',
                                                 '%s%r: writes %r errors %r' % (name, tuple(args), out.writes, out.errors))
    wire = out.writes[0][0]
    inn = Collector()
    if server:
        buffers = defaultdict(bytes)
        IRC(getBuffer=buffers.__getitem__, updateBuffer=buffers.__setitem__).register(inn)
    else:
        IRC().register(inn)
    seen = inn.seen
    inn.addHandler(_make_tap(seen))
    settle(inn)
    sock = Sock('S')
    for seg in cut(wire, mask):
        inn.fire(read(sock, seg) if server else read(seg))
        settle(inn)
    got = [(n, a) for n, a in seen if n not in SKIP_NAMES and not n.endswith(('_done', '_success', '_complete', '_failure'))]
    if server:
        exp = [(name.lower(), (sock, (None, None, None)) + tuple(given))]
    else:
        exp = [(name.lower(), ((None, None, None),) + tuple(given))]
    obs = (wire, tuple((n, tuple(map(repr, a))) for n, a in got))
    if inn.errors or got != exp:
        return obs, ('irc:pipeline:%s:response-event-differs' % ('server' if server else 'client'),
                     '%s%r -> wire %r cut %r -> events %r errors %r, expected %r'
                     % (name, tuple(args), wire, cut(wire, mask), got, inn.errors, exp))
    return obs, None


# two IRC components side by side, each on its own channel (two client connections in one process)
TWO_STREAMS = ((b'PRIVMSG alice :one a\r\nNICK al\r\n', b':srv NOTICE bob :two b\r\nPING srv\r\n'),
               (b'JOIN #x\r\n', b'PART #y :bye now\r\n'))


def _two_root(channels):
    root = Collector()
    for ch in channels:
        IRC(channel=ch).register(root)
    seen = root.seen

    from circuits import handler

    @handler(channel='*', priority=100)
    def _tap(self, event, *args, **kwargs):
        seen.append((event.name, tuple(map(repr, event.args)), tuple(event.channels)))
    root.addHandler(_tap)
    settle(root)
    return root


def _responses(root):
    return [e for e in root.seen if e[0] not in SKIP_NAMES and not e[0].endswith(('_done', '_success', '_complete', '_failure'))]


def exec_two(pair, ca, cb, order):
    """streams A and B of TWO_STREAMS[pair], cut after ca / cb bytes (0: one piece), reads interleaved as `order`; the response
    events on channel 'ca' ('cb') must be those of stream A (B) fed alone and in one piece to a lone IRC component -> (obs, failure)"""
    sa, sb = TWO_STREAMS[pair]
    want = {}
    for ch, stream in (('ca', sa), ('cb', sb)):
        lone = _two_root((ch,))
        lone.fire(read(stream), ch)
        settle(lone)
        want[ch] = _responses(lone)
    root = _two_root(('ca', 'cb'))
    segs = {'A': [sa[:ca], sa[ca:]] if ca else [sa], 'B': [sb[:cb], sb[cb:]] if cb else [sb]}
    for k in order:
        root.fire(read(segs[k].pop(0)), 'ca' if k == 'A' else 'cb')
        settle(root)
    got = _responses(root)
    obs = tuple(got)
    for ch in ('ca', 'cb'):
        mine = [e for e in got if ch in e[2]]
        if mine != want[ch] or root.errors:
            return obs, ('irc:two-components:stream-mixed-or-lost', 'two IRC components on channels ca/cb, reads %r: the response events on channel %s are %r '
                         '(errors %r); the same stream fed to a lone component gives %r' % (
                             [(k, x) for k, x in zip(order, _order_segs(sa, ca, sb, cb, order))], ch, mine, root.errors, want[ch]))
    stray = [e for e in got if not (set(e[2]) & {'ca', 'cb'})]
    if stray:
        return obs, ('irc:two-components:stray-events', 'response events on neither channel: %r' % (stray,))
    return obs, None


def _order_segs(sa, ca, sb, cb, order):
    segs = {'A': [sa[:ca], sa[ca:]] if ca else [sa], 'B': [sb[:cb], sb[cb:]] if cb else [sb]}
    return [segs[k].pop(0) for k in order]


def two_cases():
    for pair, (sa, sb) in enumerate(TWO_STREAMS):
        for ca in range(0, len(sa)):
            for cb in range(0, len(sb)):
                for order in interleavings(2 if ca else 1, 2 if cb else 1):
                    yield pair, ca, cb, order


def _make_tap(seen):
    from circuits import handler

    @handler(channel='*', priority=100)
    def _tap(self, event, *args, **kwargs):
        seen.append((event.name, tuple(event.args)))
    return _tap


# ------------------------------------------------------------------------------------------------
# exploration


def work_items(tier):
    for s in streams(TOK_A, CLIENT_K[tier]):
        yield ('LC', s)
    for pair in server_pairs(tier):
        yield ('LS', pair)
    for g in irc_groups(tier):
        yield ('IR', g)
    for name, args in pipe_cases():
        yield ('IP', (name, args))
    for pair in range(len(TWO_STREAMS)):
        for ca in range(0, len(TWO_STREAMS[pair][0])):
            yield ('I2', (pair, ca))


def hexs(b):
    return b.hex()


def _work(part, nparts, payload):
    tier, seed = payload
    core.quiet_stderr()
    st = core.Stats()
    segtot = SEG_TOTAL[tier]
    sampler = part == seed % nparts
    sampled = set()
    for idx, (fam, item) in enumerate(itertools.islice(work_items(tier), (part + seed) % nparts, None, nparts)):
        if fam == 'LC':
            stream = item
            terms = stream.count(b'\n')
            for mask in client_masks(stream, tier):
                obs, fail = exec_client(stream, mask)
                st.executions += 1
                st.transitions += len(obs)
                st.counters['LC_executions'] += 1
                st.outcome(('LC', obs))
                case = ('LC', stream, mask)
                if terms and mask:
                    st.interesting(case)
                segs = cut(stream, mask)
                if any(s.endswith(b'\r') and t.startswith(b'\n') for s, t in zip(segs, segs[1:])):
                    st.counters['LC_cut_between_CR_and_LF'] += 1
                if any(s[-1] == E_ACUTE[0] for s in segs[:-1]):
                    st.counters['LC_cut_inside_multibyte_char'] += 1
                if len(segs) > 1 and not segs[0].endswith(b'\n') and terms:
                    st.counters['LC_tail_held_across_reads'] += 1
                if fail:
                    st.fail(fail[0], fail[1], {'family': 'LC', 'stream': hexs(stream), 'mask': mask, 'reads': [repr(s) for s in segs]})
                elif sampler and 'LC' not in sampled and terms >= 2 and len(segs) >= 3 and mask % 5 == 2:
                    sampled.add('LC')
                    st.sample({'family': 'line-client', 'reads': [repr(s) for s in segs] + ["b'\\n' (probe)"],
                               'line_events_after_each_read': [[repr(x) for x in o] for o in obs]})
        elif fam == 'LS':
            sa, sb = item
            for ma in compositions(sa, segtot - 1):
                na = bin(ma).count('1') + 1
                for mb in compositions(sb, segtot - na):
                    nb = bin(mb).count('1') + 1
                    for order in interleavings(na, nb):
                        obs, fail, hits = exec_server(sa, ma, sb, mb, order)
                        st.executions += 1
                        st.transitions += len(obs)
                        st.counters['LS_executions'] += 1
                        st.outcome(('LS', obs))
                        if hits:
                            st.counters['LS_read_while_other_socket_tail_pending'] += 1
                            st.interesting(('LS', sa, ma, sb, mb, order))
                        if fail:
                            st.fail(fail[0], fail[1], {'family': 'LS', 'a': hexs(sa), 'ma': ma, 'b': hexs(sb), 'mb': mb, 'order': order,
                                                       'reads_a': [repr(s) for s in cut(sa, ma)], 'reads_b': [repr(s) for s in cut(sb, mb)]})
                        elif sampler and 'LS' not in sampled and hits and na + nb == segtot and b'\n' in sa + sb:
                            sampled.add('LS')
                            st.sample({'family': 'line-server', 'reads_A': [repr(s) for s in cut(sa, ma)],
                                       'reads_B': [repr(s) for s in cut(sb, mb)], 'order': order,
                                       'lines_A_B_after_each_read': [[[repr(x) for x in o[0]], [repr(x) for x in o[1]]] for o in obs]})
        elif fam == 'IR':
            for n, case in enumerate(group_cases(item)):
                status, wire, detail = run_irc(case)
                st.executions += 1
                st.transitions += 1
                st.counters['IR_executions'] += 1
                st.counters['IR_' + ('rejected' if status == 'rejected' else 'serialised_and_parsed_back' if status in PARSED_BACK else 'failing')] += 1
                st.outcome(('IR', status if wire is None else wire, status == 'ok'))
                hz = [h for h in (hazard(p, v) for p, k, v in fields(case)) if h]
                if case.get('as_bytes'):
                    st.counters['IR_cases_with_bytes_arguments'] += 1
                if hz:
                    st.interesting(('IR', sorted(case.items(), key=repr)))
                    if any(h in ('CR', 'LF') for h in hz):
                        st.counters['IR_cases_with_CR_or_LF_somewhere'] += 1
                if status not in ('ok', 'rejected'):
                    sig, minimal = classify_irc(case, status)
                    mstat, mwire, mdetail = run_irc(minimal)
                    st.fail(sig, '%s  [%s]' % (mdetail if mstat not in ('ok', 'rejected') else detail, case_text(minimal)),
                            dict(minimal, family='IR', found_as=case_text(case)))
                elif sampler and status not in sampled and len(case['args']) >= 2 and (status == 'rejected' or ' ' in case['args'][-1]):
                    sampled.add(status)
                    st.sample({'family': 'irc', 'case': case_text(case), 'status': status, 'wire': repr(wire), 'detail': detail})
        elif fam == 'I2':
            pair, ca = item
            for p, a, cb, order in two_cases():
                if (p, a) != (pair, ca):
                    continue
                obs, fail = exec_two(pair, ca, cb, order)
                st.executions += 1
                st.transitions += len(order)
                st.counters['I2_executions'] += 1
                st.outcome(('I2', pair, obs))
                if ca and cb and order not in ('AABB', 'BBAA'):
                    st.interesting(('I2', pair, ca, cb, order))
                    st.counters['I2_partial_line_of_one_stream_pending_while_the_other_is_read'] += 1
                if fail:
                    st.fail(fail[0], fail[1], {'family': 'I2', 'pair': pair, 'ca': ca, 'cb': cb, 'order': order})
        else:
            name, args = item
            pure = run_irc({'ctor': name, 'command': name, 'has_prefix': False, 'prefix': None, 'args': args})[0]
            if pure not in PARSED_BACK:   # already judged (and reported) by family IR; the pipeline adds nothing
                st.counters['IP_skipped_not_serialisable_or_failing_in_IR'] += 1
                continue
            for server in (False, True):
                probe_obs, probe_fail = exec_pipe(name, args, 0, server)
                n = len(probe_obs[0]) if isinstance(probe_obs[0], bytes) else 1
                for mask in pipe_masks(n):
                    obs, fail = (probe_obs, probe_fail) if mask == 0 else exec_pipe(name, args, mask, server)
                    st.executions += 1
                    st.transitions += 1
                    st.counters['IP_executions'] += 1
                    st.outcome(('IP', server, obs))
                    if mask:
                        st.interesting(('IP', name, args, mask, server))
                    if fail:
                        st.fail(fail[0], fail[1], {'family': 'IP', 'ctor': name, 'args': args, 'mask': mask, 'server': server})
                    elif sampler and 'IP' not in sampled and server and mask > 1 and len(args) >= 2:
                        sampled.add('IP')
                        st.sample({'family': 'irc-pipeline', 'ctor': name, 'args': args, 'reads': [repr(x) for x in cut(obs[0], mask)],
                                   'response_events': [list(map(str, e)) for e in obs[1]]})
    return st


def case_text(case):
    if case['ctor'] == 'Message':
        args = [a.encode('utf-8') for a in case['args']] if case.get('as_bytes') else case['args']
        return 'Message(%s%s)' % (', '.join(map(repr, [case['command']] + args)),
                                  ', prefix=%r' % case['prefix'] if case['has_prefix'] else '')
    return '%s(%s)' % (case['ctor'], ', '.join(map(repr, case['args'])))


def run(tier, seed, workers):
    st = core.parallel(_work, (tier, seed), workers, nparts=max(workers, 1) * 8)
    # determinism: one case of each family twice
    for a, b in ((exec_client(b'a\r\n\xc3\xa9\n\r', 0b010101), exec_client(b'a\r\n\xc3\xa9\n\r', 0b010101)),
                 (exec_server(b'a\r\n', 2, b'b\n\r', 1, 'ABAB'), exec_server(b'a\r\n', 2, b'b\n\r', 1, 'ABAB')),
                 (exec_pipe('PRIVMSG', ['x', 'x y'], 4, True)[0][1], exec_pipe('PRIVMSG', ['x', 'x y'], 4, True)[0][1])):
        if a != b:
            st.selfcheck_errors.append('determinism: two executions of one case differ: %r / %r' % (a, b))
    # reference self-test (the oracle itself): fixed points written by hand from the statement
    for data, exp in ((b'a\r\nb\nc', [b'a', b'b']), (b'\r\r\n\n', [b'\r', b'']), (b'a\rb\n', [b'a\rb']), (b'', [])):
        if ref_lines(data) != exp:
            st.selfcheck_errors.append('reference splitter wrong on %r' % data)
    n_streams = len(streams(TOK_A, CLIENT_K[tier]))
    exp_lc = sum(len(client_masks(s, tier)) for s in streams(TOK_A, CLIENT_K[tier]))
    exp_ir = sum(1 for g in irc_groups(tier) for _ in group_cases(g))
    if st.counters['LC_executions'] != exp_lc:
        st.selfcheck_errors.append('enumeration LC: %d of %d' % (st.counters['LC_executions'], exp_lc))
    if st.counters['IR_executions'] != exp_ir:
        st.selfcheck_errors.append('enumeration IR: %d of %d' % (st.counters['IR_executions'], exp_ir))
    for c in ('LC_cut_between_CR_and_LF', 'LC_cut_inside_multibyte_char', 'LC_tail_held_across_reads',
              'LS_read_while_other_socket_tail_pending', 'IR_rejected', 'IR_serialised_and_parsed_back',
              'IR_cases_with_CR_or_LF_somewhere', 'IR_cases_with_bytes_arguments', 'IP_executions',
              'I2_partial_line_of_one_stream_pending_while_the_other_is_read'):
        if not st.counters[c]:
            st.selfcheck_errors.append('vacuity: counter %s is 0' % c)
    if len(CTORS) < 17:
        st.selfcheck_errors.append('only %d constructors found in irc/commands.py (17 expected at least)' % len(CTORS))
    st.states = len(st.outcomes)
    ka, kb = SERVER_K[tier]
    st.bounds = {
        'line_client_tokens_max': CLIENT_K[tier], 'line_client_distinct_streams': n_streams, 'line_client_max_bytes': 2 * CLIENT_K[tier],
        'line_client_compositions': 'all 2^(n-1) for streams of <= %d bytes; <= %d cuts and byte-at-a-time for longer ones'
                                    % (FULL_BYTES[tier], MAX_CUTS[tier]), 'line_server_tokens_max': [ka, kb], 'line_server_segments_total_max': SEG_TOTAL[tier],
        'line_server_interleavings': 'all', 'irc_alphabet': [repr(a) for a in ARGS],
        'irc_Message_CMD_arity_max': 4, 'irc_Message_command_x_prefix_arity_max': 2 if tier == 'quick' else 3,
        'irc_constructors': sorted(CTORS), 'irc_varargs_extra_max': 2 if tier == 'quick' else 3,
        'irc_cases': exp_ir, 'pipeline_alphabet': [repr(b) for b in BENIGN], 'pipeline_cuts': 'one piece, every single cut, byte-at-a-time; client and server mode',
    }
    return st


def replay(wit):
    fam = wit['family']
    if fam == 'LC':
        stream = bytes.fromhex(wit['stream'])
        obs, fail = exec_client(stream, wit['mask'])
        text = 'client-mode Line, reads %r then the probe b"\\n"\nline events after each read:\n  %s\nreference lines of the whole stream: %r\n' % (
            cut(stream, wit['mask']), '\n  '.join(map(repr, obs)), ref_lines(stream))
    elif fam == 'LS':
        sa, sb = bytes.fromhex(wit['a']), bytes.fromhex(wit['b'])
        obs, fail, _ = exec_server(sa, wit['ma'], sb, wit['mb'], wit['order'])
        text = 'server-mode Line, socket A reads %r, socket B reads %r, order %s, then a probe b"\\n" on A and on B\n(lines of A, lines of B, lines without socket) after each read:\n  %s\nreference: A %r  B %r\n' % (
            cut(sa, wit['ma']), cut(sb, wit['mb']), wit['order'], '\n  '.join(map(repr, obs)), ref_lines(sa), ref_lines(sb))
    elif fam == 'IR':
        case = {k: wit[k] for k in ('ctor', 'command', 'has_prefix', 'prefix', 'args', 'as_bytes') if k in wit}
        status, wire, detail = run_irc(case)
        fail = None if status in ('ok', 'rejected') else (classify_irc(case, status)[0], detail)
        text = '%s\nstatus: %s\nwire: %r\n%s\n' % (case_text(case), status, wire, detail)
    elif fam == 'I2':
        obs, fail = exec_two(wit['pair'], wit['ca'], wit['cb'], wit['order'])
        text = 'two IRC components on channels ca / cb, streams %r cut after %d / %d bytes, order %s\nresponse events: %r\n' % (
            TWO_STREAMS[wit['pair']], wit['ca'], wit['cb'], wit['order'], obs)
    else:
        obs, fail = exec_pipe(wit['ctor'], wit['args'], wit['mask'], wit['server'])
        text = '%s%r through IRC -> write -> cut mask %d -> IRC (%s mode)\nobserved: %r\n' % (
            wit['ctor'], tuple(wit['args']), wit['mask'], 'server' if wit['server'] else 'client', obs)
    text += ('VIOLATED %s: %s\n' % fail) if fail else 'all clauses hold\n'
    return (not fail), text
