"""C03 - fire() from other threads: nothing lost or duplicated, the loop always wakes.

Engine E2: the real Manager.run() in a loop thread, F firing threads calling fire() n times each, all interleavings
at source-line granularity with <= k pre-emptions, for the fallback idle wait and for each poller.  Timed waits never
expire by themselves, so "the loop needs a timeout to notice the event" shows up as a blocked terminal state with an
undispatched event = LOST WAKE-UP.
"""
import circuits.core.helpers as helpers_mod
import circuits.core.manager as manager_mod
import circuits.core.pollers as pollers_mod
from circuits.core.components import BaseComponent
from circuits.core.events import Event, generate_events
from circuits.core.handlers import handler

from mc import core, doubles, e2_threads as e2

PROPERTY = 'C03'
LEVEL = 'model_checking'
RULE = ('stateless exploration of all schedules of {loop thread running the real run(), F firing threads x n fire() calls} '
        'with at most k pre-emptions; scheduling points = source lines of the dispatch / idle-wait / wake-up functions plus '
        'every lock, event and select/poll/epoll operation; one evaluation = one complete schedule executed on the real code; '
        'non-trivial = schedule in which a foreign fire() executed while the loop thread was inside the generate_events '
        'hand-shake or its idle wait; distinct = distinct schedule (choice sequence); "*_ctrl" configurations: three identical '
        'firing threads, a near timer bounds every idle wait and that wait may expire (an environment choice counted like a '
        'pre-emption), scheduling points restricted to the control-pipe protocol (resume, _read_ctrl, right after each wait '
        'returned, every lock/select operation), up to 3 deviations, symmetry reduction over not-yet-started firing threads')
ASSUMPTIONS = [
    'CPython 3.12: one source line of the monitored functions is an atomic step (sub-line races are not explored)',
    'lock/event/select doubles are faithful to threading.RLock, threading.Event and select.* for the operations circuits uses',
    'a timed wait never expires (the property demands wake-up without a timeout); in the *_ctrl configurations a wait of 1/8 s may '
    'expire as an environment choice, but a loop left blocked in it with an undispatched event is still a lost wake-up',
    'no randomised tail: only the bounded exhaustive part of the quantifier is decided',
]

MECHS = {'fallback': None, 'fallback_timed': None,
         # a second, idle manager runs in a thread of its own next to the one that is fired at (nothing may be shared between them)
         'fallback_two': None,
         # Select with a healthy descriptor registered and another one that was closed behind the poller's back: the first
         # select() fails, the poller cleans its lists up - and must still be woken by a fire from another thread afterwards
         'select_fault': 'Select', 'select': 'Select', 'poll': 'Poll', 'epoll': 'EPoll',
         # "ctrl" variants: a near timer bounds every idle wait (1/8 s) and that wait may expire (environment choice); scheduling
         # points are restricted to the wake-up protocol itself (control pipe, resume, time-left budget), which makes three
         # deviations affordable
         'select_ctrl': 'Select', 'poll_ctrl': 'Poll', 'epoll_ctrl': 'EPoll'}


def focus_functions():
    # (the lines of the wake-up protocol itself; a further point sits right after every blocking wait has returned)
    return [pollers_mod.BasePoller.__dict__[n] for n in ('resume', '_read_ctrl') if n in pollers_mod.BasePoller.__dict__]


def monitored():
    M = manager_mod.Manager
    Q = manager_mod._EventQueue
    fb = helpers_mod.FallBackGenerator
    names = [(M, n) for n in ('_fire', 'fireEvent', 'tick', '_flush', 'flushEvents', '_dispatcher', '_eventDone',
                              '_effectsDone', 'run', 'stop')]
    names += [(Q, n) for n in ('append', 'dispatchEvents', '__len__')]
    names += [(generate_events, 'reduce_time_left'), (fb, '_on_generate_events'), (fb, 'resume')]
    names += [(pollers_mod.BasePoller, n) for n in ('_on_generate_events', 'resume', '_read_ctrl')]
    for cls in (pollers_mod.Select, pollers_mod.Poll, pollers_mod.EPoll):
        names += [(cls, '_generate_events'), (cls, '_process')]
    funcs = []
    for owner, n in names:
        f = owner.__dict__.get(n)
        if f is not None:
            funcs.append(f)
    tl = generate_events.__dict__.get('time_left')
    if tl is not None:
        funcs.append(tl)
    return funcs


_PATCHED = False


def patch():
    global _PATCHED
    manager_mod.RLock = e2.SLock
    helpers_mod.Event = e2.SEvent      # (re-assigned every time: other harnesses of the same process install their own double)
    if _PATCHED:
        return
    doubles.patch_process_globals()
    pollers_mod.select = e2.SSelect()
    e2.monitor_functions(monitored())
    _PATCHED = True


HANDSHAKE = {'_on_generate_events', 'reduce_time_left', 'event.wait', 'select.select', 'poll.poll', 'epoll.poll',
             '_generate_events', 'resume', 'time_left', 'lock.acquire'}


class Case:
    def __init__(self, mech, F, n):
        self.mech, self.F, self.n = mech, F, n


def execute(case, prefix):
    patch()
    log = []
    root = BaseComponent()
    child = BaseComponent().register(root)
    poller = None
    if MECHS[case.mech]:
        poller = getattr(pollers_mod, MECHS[case.mech])().register(root)

    extra_socks = []
    if case.mech == 'select_fault':
        import socket as _socket
        a1, a2 = _socket.socketpair()
        b1, b2 = _socket.socketpair()
        extra_socks += [a2, b1, b2]
        poller.addReader(root, a1)
        poller.addReader(root, b1)
        a1.close()

    def on_ev(self, event, *a):
        log.append(('disp', event.tid, event.seq))

    root.addHandler(handler('probe')(on_ev))
    if case.mech.endswith('_ctrl'):
        def near_timer(self, event):
            event.reduce_time_left(0.125)
        root.addHandler(handler('generate_events')(near_timer))
    if case.mech == 'fallback_timed':
        # somebody (a Timer far in the future) bounds the idle wait: the fallback then takes its TIMED wait path
        def far_timer(self, event):
            event.reduce_time_left(1000.0)
        root.addHandler(handler('generate_events')(far_timer))
    while len(root):
        root.flush()
    ex = e2.Execution(prefix)
    if case.mech.endswith('_ctrl'):
        ex.expirable = 0.125
        ex.post_wait_point = True
        e2.set_focus(focus_functions())
    else:
        e2.set_focus(None)
    state = {'collision': False, 'in_handshake': False}

    def observer(ex_, me, where, lineno):
        if me.name == 'loop':
            if where in ('_on_generate_events', '_generate_events'):
                state['in_handshake'] = True
            elif where == 'tick':
                state['in_handshake'] = False
        elif where == 'append' and me.name != 'other' and (state['in_handshake'] or [t for t in ex_.threads if t.name == 'loop'][0].status == 'blocked'):
            state['collision'] = True
    ex.observer = observer

    def loop():
        root.run()

    sym = case.mech.endswith('_ctrl')     # there the firing threads run identical code: symmetry reduction (see e2)

    def firer(tid):
        def body():
            for i in range(case.n):
                e = Event.create('probe')
                e.tid, e.seq = tid, i
                target = root if (i + (0 if sym else tid)) % 2 == 0 else child
                target.fire(e)
                log.append(('ret', tid, i))
        return body
    other = None
    if case.mech == 'fallback_two':
        other = BaseComponent()
        ex.add_thread('other', other.run)
    ex.add_thread('loop', loop)
    for t in range(case.F):
        ex.add_thread('f%d' % t, firer(t), sym='firer' if sym else None)

    snap = {}

    def on_release(ex_):
        snap['log'] = list(log)
        root.stop()
        if other is not None:
            other.stop()
    ex.run(on_release)
    for x in extra_socks:
        try:
            x.close()
        except OSError:
            pass
    if poller is not None:
        for fd in (getattr(poller, '_ctrl_recv', None), getattr(poller, '_ctrl_send', None)):
            try:
                if isinstance(fd, int):
                    import os
                    os.close(fd)
            except OSError:
                pass
        p = getattr(poller, '_poller', None)
        if p is not None and hasattr(p, 'close'):
            try:
                p.close()
            except Exception:  # noqa: BLE001
                pass
    return ex, snap.get('log', list(log)), list(log), state


def judge(case, ex, log_at_terminal, final_log):
    """Returns list of (kind, text)."""
    bad = []
    if ex.errors:
        return [('harness', '; '.join(ex.errors))]
    if ex.terminal == 'horizon':
        return []
    returned = [(x[1], x[2]) for x in log_at_terminal if x[0] == 'ret']
    disp = [(x[1], x[2]) for x in log_at_terminal if x[0] == 'disp']
    status = getattr(ex, 'status_snapshot', {})
    firers_done = all(status.get('f%d' % t) == 'finished' for t in range(case.F))
    blocked = getattr(ex, 'blocked_snapshot', {})
    if ex.terminal == 'blocked':
        missing = [r for r in returned if r not in disp]
        if missing:
            bad.append(('lost-wakeup', 'loop thread blocked in %r with no thread enabled while events %r, whose fire() had returned, '
                        'are still undispatched' % (blocked.get('loop'), missing)))
        elif not firers_done:
            bad.append(('deadlock', 'no thread enabled: %r' % (blocked,)))
    elif ex.terminal == 'finished':
        bad.append(('loop-ended', 'run() returned without stop()'))
    # duplicates / order on the complete log (including what happened after release)
    alld = [(x[1], x[2]) for x in final_log if x[0] == 'disp']
    if len(set(alld)) != len(alld):
        bad.append(('duplicate', 'an event was dispatched twice: %r' % (alld,)))
    for t in range(case.F):
        seqs = [s for (tt, s) in alld if tt == t]
        if seqs != sorted(seqs):
            bad.append(('order', 'events of thread %d dispatched in order %r' % (t, seqs)))
    allr = [(x[1], x[2]) for x in final_log if x[0] == 'ret']
    lost = [r for r in allr if r not in alld]
    if lost and not bad:
        bad.append(('lost', 'events %r were never dispatched although run() was stopped normally' % (lost,)))
    return bad


def _pin():
    """baton hand-offs between the threads of one execution are much cheaper on one core (worker processes only: the main
    process must keep its full affinity mask, its children inherit it)"""
    import multiprocessing
    import os
    if multiprocessing.current_process().name == 'MainProcess':
        return
    try:
        cpus = sorted(os.sched_getaffinity(0))
        if len(cpus) > 1:
            os.sched_setaffinity(0, {cpus[os.getpid() % len(cpus)]})
    except (AttributeError, OSError):
        pass


def _explore(items):
    st = core.Stats()
    _pin()
    for item in items:
        mech, F, n, bound, prefix = item[:5]
        expand_only = len(item) > 5 and item[5]      # execute this prefix only and hand its children back (load balancing)
        case = Case(mech, F, n)
        stack = [list(prefix)]
        while stack:
            p = stack.pop()
            ex, lt, fl, state = execute(case, p)
            if ex.errors:
                # harness trouble (a thread that did not park or end in time on an overloaded machine): the schedule is
                # deterministic, execute it once more before saying anything
                st.counters['executions_repeated_after_harness_trouble'] += 1
                ex, lt, fl, state = execute(case, p)
            st.executions += 1
            st.transitions += len(ex.points)
            st.counters['scheduling_points_total'] += len(ex.points)
            if state['collision']:
                st.counters['schedules_with_foreign_fire_inside_handshake_or_idle_wait'] += 1
                st.interesting((mech, tuple(ex.choices)))
            st.outcome((mech, tuple(x for x in fl), ex.terminal))
            if ex.terminal == 'horizon':
                st.cap('execution exceeded %d scheduling points (%s)' % (ex.maxpoints, mech))
            for kind, text in judge(case, ex, lt, fl):
                if kind == 'harness':
                    st.selfcheck_errors.append('%s %r: %s' % (mech, p, text))
                else:
                    st.fail(kind + ':' + mech, '%s [%s F=%d n=%d schedule=%r]' % (text, mech, F, n, compress(ex.choices)),
                            {'mech': mech, 'F': F, 'n': n, 'choices': ex.choices})
            if len(st.samples) < 2 and len(p) > 0:
                st.sample({'mech': mech, 'F': F, 'n': n, 'schedule_deviations': compress(ex.choices),
                           'points': len(ex.points), 'terminal': ex.terminal, 'log': [list(x) for x in fl]})
            if expand_only:
                for k in e2.children(ex, bound):
                    st.next[(mech, F, n, bound, tuple(k))] = (mech, F, n, bound, k)
            else:
                stack.extend(e2.children(ex, bound))
    return st


def compress(choices):
    return [[i, c] for i, c in enumerate(choices) if c]


def plan(tier):
    if tier == 'quick':
        return [('fallback_two', 1, 1, 1), ('select_fault', 1, 2, 1), ('fallback', 1, 2, 2), ('fallback_timed', 1, 2, 1), ('select', 1, 2, 1), ('poll', 1, 2, 1), ('epoll', 1, 2, 1), ('fallback', 2, 1, 1),
                ('epoll_ctrl', 3, 1, 3)]
    return [('fallback_two', 1, 2, 2), ('select_fault', 1, 2, 2), ('fallback', 1, 2, 3), ('fallback_timed', 1, 2, 2), ('select', 1, 2, 2), ('poll', 1, 2, 2), ('epoll', 1, 2, 2), ('fallback', 2, 2, 2),
            ('epoll', 2, 1, 2), ('select_ctrl', 3, 1, 3), ('poll_ctrl', 3, 1, 3), ('epoll_ctrl', 3, 1, 3), ('epoll_ctrl', 1, 3, 3)]


def run(tier, seed, workers):
    total = core.Stats()
    from mc import selftest_doubles
    for e in selftest_doubles.run():
        total.selfcheck_errors.append('double self-test: ' + e)
    items = []
    for mech, F, n, bound in plan(tier):
        case = Case(mech, F, n)
        ex, lt, fl, state = execute(case, [])
        ex2, lt2, fl2, _ = execute(case, [])
        if ex.points != ex2.points or fl != fl2:
            total.selfcheck_errors.append('determinism: default schedule of %s differs between two runs' % mech)
        total.executions += 1
        total.transitions += len(ex.points)
        for kind, text in judge(case, ex, lt, fl):
            if kind == 'harness':
                total.selfcheck_errors.append(text)
            else:
                total.fail(kind + ':' + mech, text + ' [default schedule]', {'mech': mech, 'F': F, 'n': n, 'choices': ex.choices})
        total.bounds['%s_F%d_n%d' % (mech, F, n)] = {'preemption_bound': bound, 'points_in_default_schedule': len(ex.points)}
        total.sample({'mech': mech, 'F': F, 'n': n, 'schedule_deviations': [], 'points': len(ex.points),
                      'terminal': ex.terminal, 'log': [list(x) for x in fl]})
        kids = e2.children(ex, bound)
        if bound >= 3:
            # deep configurations: sub-trees differ wildly in size - distribute them one level further down
            st1 = core.parallel_items(_explore, [(mech, F, n, bound, k, True) for k in kids], workers, chunk=max(1, len(kids) // workers))
            items += list(st1.next.values())
            st1.next = {}
            total.merge(st1)
        else:
            items += [(mech, F, n, bound, k) for k in kids]
    import random
    random.Random(seed + 1).shuffle(items)   # order only (load balance); every item is explored
    items.sort(key=lambda it: it[0].endswith('_ctrl'))     # (switching the set of monitored functions is costly: group by focus)
    st = core.parallel_items(_explore, items, workers, chunk=max(1, len(items) // (workers * 6)))
    total.merge(st)
    total.states = total.counters['scheduling_points_total'] or total.transitions
    if not total.counters['schedules_with_foreign_fire_inside_handshake_or_idle_wait']:
        total.selfcheck_errors.append('vacuity: no schedule put a foreign fire inside the hand-shake')
    return total


def replay(w):
    case = Case(w['mech'], w['F'], w['n'])
    ex, lt, fl, state = execute(case, w['choices'])
    bad = judge(case, ex, lt, fl)
    text = 'mechanism %s, %d firing thread(s) x %d events, schedule deviations %r (%d points)\nterminal: %s blocked=%r\nlog: %r\n' % (
        w['mech'], w['F'], w['n'], compress(w['choices']), len(ex.points), ex.terminal, getattr(ex, 'blocked_snapshot', None), fl)
    text += ''.join('VIOLATED %s: %s\n' % b for b in bad) or 'every fired event dispatched exactly once, loop woke up\n'
    return (not bad), text
