"""C14 - any bytes on an HTTP connection: wait, or one valid error response, or close - never a crash.

Engine E4: every mutation of well-formed seed requests (and every truncation of each mutant, followed by a disconnect) is
delivered to the real HTTP component; the written bytes are parsed by an independent response parser, the loop is probed
with a sentinel event, and the per-connection tables are inspected after the disconnect.
"""
import http.client
import io
import re

from circuits.core.components import BaseComponent
from circuits.core.events import Event
from circuits.core.handlers import handler

from mc import core, httpharness as hh

PROPERTY = 'C14'
LEVEL = 'model_checking'
RULE = ('inputs = 4 seed requests x every applicable single mutation operator (request line: missing/extra part, lower-case and '
        'over-long method, bad version token, HTTP/2.0, fragment, absolute URI, leading empty line; headers: no colon, control '
        'character in a name, 64 KiB value, folded first header, duplicate/missing Host; Content-Length: abc, -1, 1e3, +5, two '
        'different values, 2**64; chunk size: zz, -1, empty; escapes \\x \\u12 \\N{ and trailing backslash in the first line and in '
        'headers; NUL bytes; non-ASCII; TLS and SSLv2 client hello; thorough: also every pair of operators on distinct fields); each '
        'input delivered whole, truncated at every offset (first 300 bytes, then every 4096) followed by disconnect, and cut into two reads at every offset below 200; '
        'non-trivial = every mutated or truncated input; distinct = distinct byte string')
ASSUMPTIONS = [
    '"the event loop keeps running" includes: handling one short input does not keep the loop busy for more than %.1f s of CPU time (thread CPU '
    'clock, second identical delivery, so first-use costs and scheduling do not count); ladders of malformed over-long inputs '
    '(run lengths 8..4096) are left at the first length that stalls' % 0.5,
    '"waits for more data" (no response, no close) is accepted for every input, as the statement allows - unless a handler raised '
    'while the input was processed (exception event observed): silence after that is not waiting. Whole inputs that stay silent even '
    'after the end of the header section and two well-formed requests followed are counted, not reported (8 on the pinned tree: '
    'chunked bodies whose chunk-size line is not hexadecimal - the parser reports INVALID_CHUNK, the component ignores it once the '
    'headers are complete; and a Content-Length of 2**64)',
    'only operators tagged malformed-for-sure forbid a 2xx/3xx answer',
    'the request handler never fails, so a 4xx/5xx answer means the HTTP component rejected the message itself - except a 500 after the '
    'response event of an accepted request raised (a value echoed from the request that the header encoding cannot represent)',
    'status line checked against the RFC 7230 grammar by the harness, headers and body by http.client.HTTPResponse',
    'per-connection tables are read through getattr after the disconnect',
]

STATUS_RE = re.compile(rb'^HTTP/\d\.\d (\d{3}) [^\r\n]*\r\n')


class Echo(BaseComponent):
    channel = 'web'
    sentinel = 0

    @handler('request', priority=0.5)
    def _on_request(self, event, req, res, *a):
        return 'ok %s %s' % (req.method, req.path)

    @handler('sentinel')
    def _on_sentinel(self, *a):
        Echo.sentinel += 1


# ---- seeds and mutation operators -------------------------------------------------------------------

def seeds():
    return {
        'get': [b'GET /p?x=1 HTTP/1.1', [b'Host: example.test', b'Accept: */*'], b''],
        'get10': [b'GET / HTTP/1.0', [b'Accept: */*'], b''],
        'post': [b'POST /p HTTP/1.1', [b'Host: example.test', b'Content-Length: 5'], b'hello'],
        'chunked': [b'POST /p HTTP/1.1', [b'Host: example.test', b'Transfer-Encoding: chunked'], b'5\r\nhello\r\n0\r\n\r\n'],
        'chtrail': [b'POST /p HTTP/1.1', [b'Host: example.test', b'Transfer-Encoding: chunked'],
                    b'5;ext=1\r\nhello\r\n0\r\nX-Trailer: t\r\nX-Other: u\r\n\r\n'],
    }


def build(seed):
    line, headers, body = seed
    return line + b'\r\n' + b''.join(h + b'\r\n' for h in headers) + b'\r\n' + body


def operators():
    """name -> (field, malformed-for-sure, function(seed copy) -> seed or raw bytes or None if not applicable)"""
    ops = {}

    def rl(name, sure, fn):
        def f(s):
            s[0] = fn(s[0])
            return s
        ops['line:' + name] = ('line', sure, f)

    rl('missing-version', True, lambda l: b' '.join(l.split(b' ')[:2]))
    rl('missing-target', True, lambda l: l.split(b' ')[0] + b' ' + l.split(b' ')[2])
    rl('extra-part', True, lambda l: l + b' extra')
    rl('lowercase-method', False, lambda l: l.split(b' ')[0].lower() + b' ' + b' '.join(l.split(b' ')[1:]))
    rl('overlong-method', True, lambda l: b'A' * 25 + b' ' + b' '.join(l.split(b' ')[1:]))
    rl('bad-version-token', True, lambda l: b' '.join(l.split(b' ')[:2]) + b' HTTP/x')
    rl('version-2.0', False, lambda l: b' '.join(l.split(b' ')[:2]) + b' HTTP/2.0')
    rl('fragment', True, lambda l: l.split(b' ')[0] + b' /p#frag ' + l.split(b' ')[2])
    rl('absolute-uri', False, lambda l: l.split(b' ')[0] + b' http://example.test/p ' + l.split(b' ')[2])
    rl('escape-x', False, lambda l: l.split(b' ')[0] + b' /p\\x ' + l.split(b' ')[2])
    rl('escape-u12', False, lambda l: l.split(b' ')[0] + b' /p\\u12 ' + l.split(b' ')[2])
    rl('escape-N', False, lambda l: l.split(b' ')[0] + b' /p\\N{ ' + l.split(b' ')[2])
    rl('trailing-backslash', False, lambda l: l + b'\\')
    rl('nul-in-target', False, lambda l: l.split(b' ')[0] + b' /p\x00q ' + l.split(b' ')[2])
    rl('non-ascii-target', False, lambda l: l.split(b' ')[0] + b' /p\xc3\xa9\xff ' + l.split(b' ')[2])
    rl('double-slash-target', False, lambda l: l.split(b' ')[0] + b' //p/../q ' + l.split(b' ')[2])
    rl('empty-line-first', False, lambda l: b'\r\n' + l)
    rl('only-spaces', True, lambda l: b'   ')

    def hd(name, sure, fn):
        def f(s):
            r = fn(s[1])
            if r is None:
                return None
            s[1] = r
            return s
        ops['header:' + name] = ('header', sure, f)

    hd('no-colon', True, lambda h: h + [b'this line has no colon'])
    hd('control-char-in-name', True, lambda h: h + [b'X-\x01Bad: v'])
    hd('huge-value', False, lambda h: h + [b'X-Big: ' + b'v' * 65536])
    hd('folded-first', False, lambda h: [b' folded: start'] + h)
    hd('duplicate-host', False, lambda h: h + [b'Host: other.test'])
    hd('missing-host', False, lambda h: [x for x in h if not x.lower().startswith(b'host')])
    hd('escape-x-in-value', False, lambda h: h + [b'X-Esc: \\x'])
    hd('escape-u-in-value', False, lambda h: h + [b'X-Esc: \\u12'])
    hd('escape-N-in-name', False, lambda h: h + [b'X-\\N{: v'])
    hd('nul-in-value', False, lambda h: h + [b'X-Nul: a\x00b'])
    hd('non-ascii-value', False, lambda h: h + [b'X-Uni: \xc3\xa9\xff'])
    hd('empty-name', True, lambda h: h + [b': novalue'])
    # values the server echoes (request cookies come back as Set-Cookie): not representable in the header encoding
    hd('cookie-non-latin1-escape', False, lambda h: h + [b'Cookie: a="\\u20ac"'])
    hd('cookie-non-latin1-escape-plain', False, lambda h: h + [b'Cookie: a=\\u20ac; b=ok'])
    hd('cookie-control-char', False, lambda h: h + [b'Cookie: a="x\\x01y"'])
    # lone surrogates written as escapes (the parser decodes such escapes): in accepted and in rejected lines
    hd('surrogate-escape-in-value', False, lambda h: h + [b'X-Sur: \\ud800'])
    hd('surrogate-escape-no-colon', True, lambda h: h + [b'no colon here \\ud800'])
    hd('surrogate-escape-in-bad-name', True, lambda h: h + [b'X-\x01\\udc80: v'])
    rl('surrogate-escape-in-target', False, lambda l: l.split(b' ')[0] + b' /p\\ud83d ' + l.split(b' ')[2])
    rl('surrogate-escape-extra-part', True, lambda l: l + b' \\ud800')

    def cl(name, sure, vals):
        def f(s):
            if not any(x.lower().startswith(b'content-length') for x in s[1]):
                return None
            s[1] = [x for x in s[1] if not x.lower().startswith(b'content-length')] + [b'Content-Length: ' + v for v in vals]
            return s
        ops['clen:' + name] = ('clen', sure, f)

    cl('abc', True, [b'abc'])
    cl('negative', True, [b'-1'])
    cl('1e3', True, [b'1e3'])
    cl('plus5', False, [b'+5'])
    cl('two-different', True, [b'5', b'7'])
    cl('2pow64', False, [b'18446744073709551616'])
    cl('empty', True, [b''])
    cl('non-ascii-digit', True, [b'1\xe9'])                  # error pages that quote the value contain non-ASCII text
    cl('unicode-escape', True, [b'\\u20ac5'])
    cl('two-different-non-ascii', True, [b'5', b'\xe2\x82\xac'])
    hd('host-port-non-ascii', False, lambda h: [x for x in h if not x.lower().startswith(b'host')] + [b'Host: example.test:8\xe9'])
    hd('host-port-escape', False, lambda h: [x for x in h if not x.lower().startswith(b'host')] + [b'Host: example.test:\\u20ac'])

    def ch(name, sure, size):
        def f(s):
            if not s[2].startswith(b'5\r\n'):
                return None
            s[2] = size + s[2][1:]
            return s
        ops['chunk:' + name] = ('chunk', sure, f)

    ch('zz', True, b'zz')
    ch('negative', True, b'-1')
    ch('empty', True, b'')

    ops['raw:tls-client-hello'] = ('raw', False, lambda s: b'\x16\x03\x01\x00\xa5\x01\x00\x00\xa1\x03\x03' + bytes(range(60)))
    ops['raw:sslv2-client-hello'] = ('raw', False, lambda s: b'\x80\x2e\x01\x00\x02\x00\x15\x00\x00\x00\x10' + bytes(range(30)))
    ops['raw:nul-bytes'] = ('raw', False, lambda s: b'\x00' * 40)
    ops['raw:crlf-flood'] = ('raw', False, lambda s: b'\r\n' * 50)
    ops['raw:binary-then-crlf'] = ('raw', False, lambda s: bytes(range(256)) + b'\r\n\r\n')
    return ops


def inputs(tier):
    """yield (name, data, sure)"""
    ops = operators()
    for sname in seeds():
        yield ('%s|wellformed' % sname, build(seeds()[sname]), False)
        for oname, (field, sure, fn) in ops.items():
            s = seeds()[sname]
            r = fn([s[0], list(s[1]), s[2]])
            if r is None:
                continue
            if field == 'raw':
                if sname != 'get':
                    continue
                yield ('raw|%s' % oname, r, sure)
            else:
                yield ('%s|%s' % (sname, oname), build(r), sure)
        if tier != 'quick':
            names = list(ops)
            for i, a in enumerate(names):
                for b in names[i + 1:]:
                    fa, sa, fna = ops[a]
                    fb, sb, fnb = ops[b]
                    if fa == fb or 'raw' in (fa, fb) or 'huge' in a or 'huge' in b:
                        continue
                    s = seeds()[sname]
                    r = fna([s[0], list(s[1]), s[2]])
                    if r is None:
                        continue
                    r = fnb(r)
                    if r is None:
                        continue
                    yield ('%s|%s+%s' % (sname, a, b), build(r), sa or sb)


LADDER = (8, 16, 20, 22, 24, 26, 28, 32, 64, 256, 4096)
STALL_CPU_SECONDS = 0.5      # CPU time (not wall time) one delivery of a short input may cost; measured baseline: ~1 ms


def ladders():
    """name -> function(n) -> request bytes: inputs that are both malformed and over-long, of growing length n.
    The cost of rejecting (or accepting) them must stay proportionate: the loop serves nobody else meanwhile."""
    def req(line=b'GET /p HTTP/1.1', headers=(), body=b''):
        return build([line, [b'Host: example.test'] + list(headers), body])
    return {
        'header-name-run-then-bad-char': lambda n: req(headers=[b'X-' + b'A' * n + b'@: 1']),
        'header-name-dashed-run-then-bad-char': lambda n: req(headers=[b'a-' * n + b'@: 1']),
        'header-name-run-then-space': lambda n: req(headers=[b'A' * n + b' : 1']),
        'header-name-run-no-colon': lambda n: req(headers=[b'A' * n]),
        'header-value-run-then-control-char': lambda n: req(headers=[b'X-V: ' + b'a' * n + b'\x01']),
        'header-value-spaces-run': lambda n: req(headers=[b'X-V:' + b' ' * n + b'\x01']),
        'method-run-then-bad-char': lambda n: req(line=b'A' * n + b'@ /p HTTP/1.1'),
        'target-run-then-bad-escape': lambda n: req(line=b'GET /' + b'a' * n + b'\\x HTTP/1.1'),
        'target-percent-run': lambda n: req(line=b'GET /' + b'%2' * n + b' HTTP/1.1'),
        'version-run': lambda n: req(line=b'GET /p HTTP/' + b'1' * n + b'.x'),
        'content-length-run': lambda n: req(line=b'POST /p HTTP/1.1', headers=[b'Content-Length: ' + b'1' * n + b'x']),
        'chunk-size-run': lambda n: req(line=b'POST /p HTTP/1.1', headers=[b'Transfer-Encoding: chunked'], body=b'f' * n + b'z\r\nhello\r\n0\r\n\r\n'),
        'folded-lines-run': lambda n: req(headers=[b'X-F: a' + b'\r\n b' * n + b'\x01']),
    }


def truncations(data):
    n = len(data)
    pos = list(range(1, min(n, 300)))
    pos += list(range(4096, n, 4096))
    if n > 300:
        pos += [n - 3, n - 1]
    return sorted(set(p for p in pos if 0 < p < n))


# ---- running and judging ----------------------------------------------------------------------------

def parse_responses(data):
    """independent parser: returns (list of (status, headers dict, body), error text or None)"""
    out = []
    buf = bytes(data)
    while buf:
        m = STATUS_RE.match(buf)
        if not m:
            return out, 'bytes do not start with a valid status line: %r' % (buf[:60],)
        end = buf.find(b'\r\n\r\n')
        if end < 0:
            return out, 'header section never terminated'
        for line in buf[m.end():end].split(b'\r\n'):
            if line and (b':' not in line or line[:1] in b' \t' or not re.match(rb'^[!#$%&\'*+\-.^_`|~0-9A-Za-z]+:', line)):
                return out, 'malformed header line %r' % (line[:60],)

        class NoClose(io.BytesIO):
            def close(self):      # http.client closes the file once the body is read; the position is still needed
                pass

        class FakeSock:
            def __init__(self, b):
                self.f = NoClose(b)

            def makefile(self, *a, **k):
                return self.f
        # circuits answers an HTTP/2.0 request line with "HTTP/2.0 505 ...": grammatical (the harness checked the status
        # line above) although http.client only knows 1.x; give it the same bytes with the version it understands
        fs = FakeSock(b'HTTP/1.1' + buf[8:] if not buf.startswith((b'HTTP/1.0', b'HTTP/1.1')) else buf)
        r = http.client.HTTPResponse(fs)
        try:
            r.begin()
            if r.length is None and not r.chunked and not r.will_close and r.status not in (204, 304) and not (100 <= r.status < 200):
                return out, 'response has neither Content-Length nor chunked encoding nor Connection: close'
            body = r.read()
            if r.length not in (None, 0):
                return out, 'body shorter than announced'
        except Exception as exc:  # noqa: BLE001
            return out, 'http.client cannot parse the response: %r' % (exc,)
        consumed = fs.f.tell()
        out.append((r.status, {k.lower(): v for k, v in r.getheaders()}, body, r.will_close, r.version))
        if r.will_close and r.length is None and not r.chunked:
            consumed = len(buf)
        buf = buf[consumed:]
    return out, None


def run_input(data, cut=None, rest=False, debug=False):
    obs = run_input_once(data, cut, rest, debug)
    if obs.get('cpu', 0) > STALL_CPU_SECONDS / 4:
        # first-use costs (lazy imports, regular expressions compiled on first use) are not stalls: only what a repeated,
        # identical delivery still costs counts
        again = run_input_once(data, cut, rest, debug)
        obs['cpu'] = min(obs['cpu'], again.get('cpu', 0))
    return obs


def run_input_once(data, cut=None, rest=False, debug=False):
    """deliver data (or its prefix of length cut; with rest=True the remainder follows as a second read), probe the loop,
    disconnect; return observation dict"""
    import time
    w = hh.HttpWorld(controllers=(Echo(),), dispatcher=False)
    obs = {}
    try:
        sock = w.new_sock()
        Echo.sentinel = 0
        if debug == 'unix':
            # a server bound to a UNIX socket: it has a path where others have a host, and no port
            w.server.host, w.server.port = '/run/web.sock', None
        elif debug:
            w.server.display_banner = True     # what a real server has by default: error pages show the traceback
        t0 = time.thread_time()
        if rest == 'drop':
            # the client sends the input and is gone at once: the disconnect is announced in the very next pass, before the events
            # fired while handling the read have run their course
            from circuits.net.events import disconnect as _disc_event, read as _read_event
            w.root.fire(_read_event(sock, data), 'web')
            w.root.flush()             # (the read is handled while the socket is still open, as with a real server)
            try:
                sock.close()
            except OSError:
                pass
            w.root.fire(_disc_event(sock), 'web')
            w.settle()
        elif rest == 'burst' and cut is not None:
            # the second read is dispatched in the very next flush pass (what a server whose socket stays readable does:
            # one read event per loop iteration), i.e. before the events fired while handling the first have run their course
            from circuits.net.events import read as _read_event
            w.root.fire(_read_event(sock, data[:cut]), 'web')
            w.root.flush()
            w.root.fire(_read_event(sock, data[cut:]), 'web')
            w.settle()
        else:
            w.feed(sock, data if cut is None else data[:cut])
        if rest and rest != 'burst' and cut is not None:
            # (also when the component has already asked for the connection to be closed: a close takes effect only once
            # buffered output is flushed and the reads already under way have been delivered - what arrives until then
            # still reaches the component, which must not answer it)
            w.feed(sock, data[cut:])
        obs['cpu'] = time.thread_time() - t0
        w.root.fire(Event.create('sentinel'), 'web')
        w.settle()
        # "waits for more data" has to mean it: if nothing was said about a WHOLE input, more data (the end of any header
        # section that might still be open, then a complete well-formed request) must get some reaction - a response or a close
        obs['silent_forever'] = False
        obs['dropped'] = rest == 'drop'
        obs['exceptions'] = list(w.exceptions)
        obs['written_before_follow_up'] = bytes(w.written[sock])
        obs['closed_before_follow_up'] = sock in w.closed
        if cut is None and rest != 'drop' and not w.written[sock] and sock not in w.closed:
            w.feed(sock, b'\r\n\r\n' + b'GET /follow-up HTTP/1.1\r\nHost: example.test\r\n\r\n' * 2)
            obs['silent_forever'] = not w.written[sock] and sock not in w.closed
            obs['follow_up'] = True
        obs['sentinel'] = Echo.sentinel
        obs['written'] = bytes(w.written[sock])
        obs['closed'] = sock in w.closed
        obs['events'] = list(w.events[sock])
        obs['requests'] = len(w.requests)
        obs['crashed'] = w.crashed
        if rest != 'drop':          # (drop: the one and only disconnect has been announced already)
            w.disconnect(sock)
        obs['crashed'] = obs['crashed'] or w.crashed
        res = []
        for attr in ('_buffers', '_clients', '_closing'):
            tab = getattr(w.http, attr, None)
            if tab is not None and sock in tab:
                res.append(attr)
        obs['residue'] = res
        obs['written_after_disconnect'] = bytes(w.written[sock])[len(obs['written']):]
    finally:
        w.cleanup()
    return obs


def judge(name, data, sure, obs, truncated):
    bad = []
    cls = name.split('|', 1)[1] if '|' in name else name
    if truncated:
        cls = 'truncated'
    if obs['crashed']:
        bad.append(('crash:' + cls, 'an exception escaped the event loop: %s' % obs['crashed']))
    if obs.get('cpu', 0) > STALL_CPU_SECONDS * max(1, len(data) // 65536):
        bad.append(('stall:' + cls, 'handling %d bytes kept the event loop busy for %.2f s of CPU time (limit %.2f s; ordinary inputs cost about 1 ms)'
                    % (len(data), obs['cpu'], STALL_CPU_SECONDS)))
    if obs['sentinel'] != 1:
        bad.append(('loop-dead:' + cls, 'a later event was dispatched %d times' % obs['sentinel']))
    if obs.get('dropped'):
        # the peer was gone before anything could be answered: only the loop and the absence of retained state are judged
        if obs['residue']:
            bad.append(('residue:%s:client-gone-at-once' % '+'.join(obs['residue']), 'the client sent the input and disconnected at once; after '
                        'everything settled the HTTP component still holds %r for the socket' % (obs['residue'],)))
        return bad
    if obs.get('exceptions') and not obs['written_before_follow_up'] and not obs['closed_before_follow_up']:
        # a handler raised while this connection's data was being processed and the component said nothing afterwards: that is
        # not "waiting for more data"
        bad.append(('exception-unanswered:' + cls, 'a handler raised (%s) and neither a response nor a close followed' % (obs['exceptions'][0],)))
    if obs.get('follow_up'):
        # (what the follow-up provoked is not judged as the answer to the input: several messages were sent; a connection that
        # stays silent even then is counted, not reported - by its letter the statement allows waiting)
        return bad
    resps, err = parse_responses(obs['written'])
    if err:
        bad.append(('invalid-response:' + cls, err))
    if len(resps) > 1:
        bad.append(('several-responses:' + cls, '%d responses for one message: %r' % (len(resps), [r[0] for r in resps])))
    for status, headers, body, will_close, version in resps[:1]:
        if sure and not truncated and status < 400:
            bad.append(('accepted-malformed:' + cls, 'malformed input answered with status %d' % status))
        failed_while_answering = status == 500 and any(x.endswith('(in response)') for x in obs.get('exceptions', ()))
        if status >= 400 and obs['requests'] and not failed_while_answering:
            bad.append(('request-event-for-rejected-message:' + cls, 'status %d but %d request event(s) were dispatched' % (status, obs['requests'])))
        if will_close and not obs['closed']:
            bad.append(('close-missing:' + cls, 'the response announces that the connection will close (status %d) but no close event followed' % status))
        if not will_close and obs['closed']:
            bad.append(('close-unannounced:' + cls, 'the connection was closed after a response (status %d) that keeps it alive' % status))
    if not resps and obs['requests'] and not obs['written']:
        pass
    # nothing may be written after the close event
    seen_close = False
    for ev in obs['events']:
        if ev[0] == 'close':
            seen_close = True
        elif ev[0] == 'write' and seen_close:
            bad.append(('write-after-close:' + cls, 'bytes written after the close event'))
            break
    if obs['residue']:
        exitk = 'no-response' if not resps else 'status-%d' % resps[0][0]
        bad.append(('residue:%s:%s' % ('+'.join(obs['residue']), exitk), 'after the disconnect the HTTP component still holds %r for the socket' % (obs['residue'],)))
    if obs['written_after_disconnect']:
        bad.append(('write-after-disconnect:' + cls, 'bytes written after the disconnect: %r' % (obs['written_after_disconnect'][:40],)))
    return bad


def _work(part, nparts, payload):
    tier, seed = payload
    core.quiet_stderr()
    st = core.Stats()
    for idx, (name, data, sure) in enumerate(inputs(tier)):
        if idx % nparts != part:
            continue
        cuts = truncations(data) if '+' not in name else []
        cases = [(None, False), (None, 'debug'), (None, 'unix'), (None, 'drop')] + [(c, False) for c in cuts] + [(c, True) for c in cuts if c < 200] + \
            [(c, 'burst') for c in cuts if c < 200]
        for cut, rest in cases:
            debug = rest if rest in ('debug', 'unix') else False
            rest = False if debug else rest
            obs = run_input(data, cut, rest, debug)
            if debug:
                st.counters['deliveries_with_traceback_pages'] += 1
            st.executions += 1
            st.transitions += 3   # deliver, probe, disconnect
            st.interesting((name, cut, rest))
            st.outcome((name, cut, rest, obs['written'][:200], obs['closed'], obs['requests'], tuple(obs['residue'])))
            if cut is None and sure:
                st.counters['malformed_for_sure_inputs'] += 1
            if obs['written'][9:12] in (b'400', b'500', b'505'):
                st.counters['inputs_answered_with_error_response'] += 1
            if not obs['written'] and not obs['closed']:
                st.counters['inputs_waited_on'] += 1
            if rest:
                st.counters['two_segment_deliveries'] += 1
            if obs.get('silent_forever'):
                st.counters['whole_inputs_silent_even_after_a_follow_up_request(not judged)'] += 1
            for kind, text in judge(name, data, sure, obs, cut is not None and not rest):
                st.fail(kind + (':two-segments' if rest else ''), '%s [input %s%s: %r...]' % (
                    text, name, '' if cut is None else ((' cut in two reads at %d' % cut) + (' (second read dispatched in the next flush pass)' if rest == 'burst' else '')
                                                        if rest else ' truncated at %d' % cut), data[:70]),
                    {'name': name, 'cut': cut, 'rest': rest, 'tier': tier, 'debug': debug})
            if cut is None and len(st.samples) < 2 and 'clen' in name:
                st.sample({'input': name, 'bytes': data[:200].decode('latin1'), 'written': obs['written'][:120].decode('latin1'), 'closed': obs['closed']})
    # ladders: malformed AND over-long inputs of growing length; a ladder is left at the first length whose handling stalls the loop
    for idx, (lname, fn) in enumerate(sorted(ladders().items())):
        if idx % nparts != part:
            continue
        for n in LADDER:
            data = fn(n)
            name = 'ladder|%s' % lname
            obs = run_input(data)
            st.executions += 1
            st.transitions += 3
            st.interesting((name, n))
            st.counters['ladder_inputs'] += 1
            st.outcome((name, n, obs['written'][:40], obs['closed'], obs['requests'], tuple(obs['residue'])))
            bad = judge(name, data, False, obs, False)
            for kind, text in bad:
                st.fail(kind, '%s [input %s, run length %d: %r...]' % (text, name, n, data[:90]), {'name': name, 'n': n, 'cut': None, 'tier': tier})
            if any(k.startswith('stall') for k, _t in bad):
                break
    return st


def run(tier, seed, workers):
    st = core.parallel(_work, (tier, seed), workers, nparts=workers * 6)
    a, b = run_input(build(seeds()['post'])), run_input(build(seeds()['post']))
    if hh.strip_dates(a['written']) != hh.strip_dates(b['written']):
        st.selfcheck_errors.append('determinism: two deliveries differ')
    st.states = len(st.outcomes)
    st.bounds = {'inputs': sum(1 for _ in inputs(tier)), 'operators': len(operators()), 'seeds': len(seeds())}
    for c in ('malformed_for_sure_inputs', 'inputs_answered_with_error_response', 'inputs_waited_on'):
        if not st.counters[c]:
            st.selfcheck_errors.append('vacuity: ' + c)
    return st


def replay(wj):
    if wj['name'].startswith('ladder|'):
        data = ladders()[wj['name'].split('|', 1)[1]](wj['n'])
        obs = run_input(data)
        bad = judge(wj['name'], data, False, obs, False)
        text = 'input %s, run length %d: %r\nwritten: %r\nclosed=%r requests=%r residue=%r sentinel=%r crashed=%r cpu=%.3f s\n' % (
            wj['name'], wj['n'], data[:300], obs['written'][:300], obs['closed'], obs['requests'], obs['residue'], obs['sentinel'], obs['crashed'], obs.get('cpu', 0))
        text += ''.join('VIOLATED %s: %s\n' % b for b in bad) or 'all clauses hold\n'
        return (not bad), text
    for name, data, sure in inputs(wj.get('tier', 'quick')):
        if name == wj['name']:
            obs = run_input(data, wj['cut'], wj.get('rest', False), wj.get('debug', False))
            bad = judge(name, data, sure, obs, wj['cut'] is not None and not wj.get('rest', False))
            text = 'input %s (cut %r): %r\nwritten: %r\nclosed=%r requests=%r residue=%r sentinel=%r crashed=%r\n' % (
                name, wj['cut'], data[:300], obs['written'][:300], obs['closed'], obs['requests'], obs['residue'], obs['sentinel'], obs['crashed'])
            text += ''.join('VIOLATED %s: %s\n' % b for b in bad) or 'all clauses hold\n'
            return (not bad), text
    return True, 'input %r is not in the grammar of this tier' % (wj['name'],)
