"""C08 - run()/stop(): started once, everything queued is drained, stopped once.

Part 1 (E4, H-run): every program of handler chains around a stop action runs under the real run(), twice in a row
on the same manager.  Part 2 (E2): stop() issued by a second thread, all interleavings with <= k pre-emptions.
"""
import itertools

from mc import core, ghost

PROPERTY = 'C08'
LEVEL = 'model_checking'
RULE = ('program = chain started -> c1 -> .. -> cL (L <= 3) x position of the stop action (in `started`, in any chain handler) x '
        'action {stop(), stop(0), stop(3), stop("x"), raise SystemExit(), SystemExit(0), SystemExit(3), SystemExit("x"), KeyboardInterrupt} x '
        'next link fired before/after the action x optionally one link fired from a generator step x extra events fired around the '
        'action x (a further handler failing with an Exception / a BaseException that is no Exception, plain or in a generator step); each program = 2 consecutive run() cycles on one manager plus stop() while not running; part 2: stop() from a second '
        'thread under the E2 scheduler; non-trivial = every program (each exercises a stop placement); distinct = distinct program/schedule')
ASSUMPTIONS = [
    'an exit code is any value other than None: stop(0) / SystemExit(0) must reach the caller of run() as SystemExit(0)',
    'an idle loop is kept from sleeping by a generate_events handler that asks for zero time (the Driver), as a poller with pending work would',
    'events fired by a handler after it raised SystemExit/KeyboardInterrupt do not exist (the raise aborts the handler); the ghost log decides what was fired',
]

ACTIONS = [('mstop', None), ('mstop', 0), ('mstop', 3), ('mstop', 'x'), ('sysexit', None), ('sysexit', 0), ('sysexit', 3),
           ('sysexit', 'x'), ('kbd',)]


def programs(tier):
    for L in range(0, 4):
        for pos in range(0, L + 1):
            for act in ACTIONS:
                for order in ('fire-then-stop', 'stop-then-fire'):
                    gens = [None] + list(range(0, L + 1))
                    for gen in gens:
                        for extra in ((False, True) if tier != 'quick' or L <= 2 else (False,)):
                            yield L, pos, act, order, gen, extra
    # work that starts while the loop is already fading out: a `stopped` handler that fires / calls, and a generator handler
    # that stops the manager and only then calls the next link
    for L in range(0, 3):
        for pos in range(0, L + 1):
            for act in ACTIONS:
                for sk in ('stopped-fires', 'stopped-calls'):
                    yield L, pos, act, 'fire-then-stop', None, sk
                if pos < L and act[0] == 'mstop':
                    yield L, pos, act, 'stop-then-call', pos, False
    # stop() called on a registered component that is not the running root: a manager that is not running - no effect
    for L in (0, 1, 2):
        for pos in range(0, L + 1):
            for act in (('mstop', None), ('mstop', 3), ('sysexit', 0), ('kbd',)):
                for ccode in (None, 5):
                    for gen in (None, pos):
                        yield L, pos, act, 'fire-then-stop', gen, ('child-stop', ccode)
    # a generator `stopped` handler that, after Y further steps, starts a chain of K events: however long the chain, run()
    # returns only after all of it has been dispatched (and the next cycle does not begin with left-overs)
    for L in (0, 1):
        for act in (('mstop', None), ('mstop', 3), ('sysexit', None), ('kbd',)):
            for K in (2, 6, 12):
                for Y in (0, 1, 2, 3):
                    yield L, L, act, 'fire-then-stop', None, ('genchain', K, Y)


    # a handler that fails while the loop runs: an Exception or a BaseException that is no Exception (plain handler or a later
    # step of a generator handler) - the failure is reported, the loop goes on, `stopped` is dispatched and run() ends as the
    # stop action says
    for L in (0, 1, 2):
        for pos in range(0, L + 1):
            for act in (('mstop', None), ('mstop', 3), ('sysexit', None), ('sysexit', 3), ('kbd',)):
                for kind in ('raise', 'raiseb'):
                    for where in ('plain', 'gen'):
                        for order in ('fire-then-stop', 'stop-then-fire'):
                            yield L, pos, act, order, None, ('failing', kind, where)


def build(program):
    L, pos, act, order, gen, extra = program
    handlers = []
    for i in range(0, L + 1):
        typ = 'started' if i == 0 else 'c%d' % i
        steps = []
        nxt = [('fire', 'c%d' % (i + 1))] if i < L else []
        ex = [('fire', 'x')] if extra else []
        ex = [('fire', 'x')] if extra is True or (isinstance(extra, tuple) and extra[0] == 'failing') else []
        if i == pos:
            if isinstance(extra, tuple) and extra[0] == 'child-stop':
                body = [('cstop', extra[1])] + nxt + [('fire', 'x'), ('cstop', extra[1]), act]
            elif order == 'fire-then-stop':
                body = nxt + ex + [act]
            elif order == 'stop-then-call':
                body = [act, ('y', None), ('call', 'c%d' % (i + 1))]
            else:
                body = ex + [act] + nxt
        else:
            body = nxt
        if gen == i:
            steps = ('gen', [('y', None)] + body)
        else:
            steps = body
        handlers.append(('h%d' % i, typ, 2, steps))
    if isinstance(extra, tuple) and extra[0] == 'failing':
        handlers.append(('hx', 'x', 2, ('gen', [('y', None), (extra[1],)]) if extra[2] == 'gen' else [(extra[1],)]))
    else:
        handlers.append(('hx', 'x', 2, [('ret', 1)]))
    if extra == 'stopped-fires':
        handlers.append(('hs', 'stopped', 2, [('fire', 'x')]))
    elif isinstance(extra, tuple) and extra[0] == 'genchain':
        _, K, Y = extra
        handlers.append(('hs', 'stopped', 2, ('gen', [('y', None)] * Y + [('fire', 'k1')])))
        for i in range(1, K + 1):
            handlers.append(('hk%d' % i, 'k%d' % i, 2, [('fire', 'k%d' % (i + 1))] if i < K else [('ret', None)]))
    elif extra == 'stopped-calls':
        handlers.append(('hs', 'stopped', 2, ('gen', [('call', 'cleanup'), ('fire', 'x')])))
        handlers.append(('hcl', 'cleanup', 2, [('ret', 5)]))
    return handlers


def execute(program, lazy=False):
    w = ghost.RunWorld(build(program), script=[], horizon=40, idle_needed=10 ** 9)
    w.auto_stop = True     # only the horizon makes the driver stop (idle_needed is unreachable)
    w.lazy = lazy          # lazy: nobody asks for zero idle time; the fall-back's idle wait is a double that reports every wait
    w.use_idle_double()
    results = []
    pre = len(w.log), len(w.root)
    w.root.stop()          # stop() on a manager that is not running
    w.notrunning = [(pre, (len(w.log), len(w.root)))]
    w.stray = []
    w.escaped = []
    stray_stop(w, 7)       # ... also with an exit code: no effect now and none on the next run()
    marks = []
    for cycle in range(2):
        w.iterations = 0
        w.capped = False
        w.stopped_by_driver = False
        start = len(w.log)
        res = w.run()
        marks.append((start, len(w.log), res, len(w.root), w.stopped_by_driver))
        pre = len(w.log), len(w.root)
        w.root.stop()
        w.notrunning.append((pre, (len(w.log), len(w.root))))
        # ... also with something queued on the stopped manager
        w.comp.fire(ghost.Event.create('x'))
        pre = len(w.log), len(w.root)
        w.root.stop()
        w.notrunning.append((pre, (len(w.log), len(w.root))))
        for _ in range(3):
            try:
                w.root.tick()
            except BaseException as exc:  # noqa: BLE001 - a handler's failure that came out of tick()
                w.escaped.append('%s(%s) came out of tick() on the stopped manager' % (type(exc).__name__, exc))
        stray_stop(w, 9)
    return w, marks


def stray_stop(w, code):
    pre = len(w.log), len(w.root)
    try:
        w.root.stop(code)
        res = 'return'
    except BaseException as exc:  # noqa: BLE001
        res = 'raised %s(%r)' % (type(exc).__name__, getattr(exc, 'code', None))
    w.stray.append((code, res, pre, (len(w.log), len(w.root))))


def judge(program, w, marks):
    L, pos, act, order, gen, extra = program
    bad = []
    for pre, post in w.notrunning:
        if pre != post:
            bad.append(('stop-not-running', 'stop() on a stopped manager changed log/queue: %r -> %r' % (pre, post)))
    for code, res, pre, post in w.stray:
        if res != 'return' or pre != post:
            bad.append(('stop-not-running', 'stop(%r) on a stopped manager: %s, log/queue %r -> %r' % (code, res, pre, post)))
    for text in w.escaped:
        bad.append(('failure-escaped', text))
    for cyc, (a, b, res, qlen, by_driver) in enumerate(marks):
        seg = w.log[a:b]
        tag = 'cycle%d:' % (cyc + 1)
        forever = [x for x in seg if x[0] == 'idle-wait' and (x[1] is None or x[1] >= 1000)]
        if forever:
            after_stop = any(x[0] == 'stopcall' for x in seg[:seg.index(forever[0])])
            bad.append((tag + 'idle-forever', 'the loop entered an idle wait of %r s that only another thread could end (%s); '
                        'in this single-threaded program run() would never return' % (forever[0][1], 'after the stop action' if after_stop else 'before the stop action')))
            continue
        if by_driver:
            bad.append((tag + 'never-stopped', 'run() did not end after the stop action (driver had to stop it at the horizon)'))
            continue
        nstart = sum(1 for x in seg if x[0] == 'obs' and x[1] == 'started')
        nstop = sum(1 for x in seg if x[0] == 'obs' and x[1] == 'stopped')
        if nstart != 1:
            bad.append((tag + 'started-count', '`started` dispatched %d times' % nstart))
        if nstop != 1:
            bad.append((tag + 'stopped-count', '`stopped` dispatched %d times before run() returned' % nstop))
        for x in seg:
            if x[0] == 'obs' and x[1] in ('started', 'stopped') and x[4] != (True,):
                bad.append((tag + 'args', '`%s` does not carry the manager that was %s' % (x[1], x[1])))
        fired = [x[1] for x in seg if x[0] == 'fire']
        entered = [x[2] for x in seg if x[0] == 'enter']
        lost = [e for e in fired if e not in entered]
        if lost or qlen:
            names = [w.events[e].name for e in lost]
            bad.append((tag + 'not-drained', 'run() ended (%r) with %d event(s) still queued; fired but never dispatched: %r'
                        % (res, qlen, names)))
        unfinished = [x for x in seg if x[0] == 'enter' and not any(
            y[0] == 'exit' and y[1] == x[1] and y[2] == x[2] for y in seg)]
        if unfinished:
            bad.append((tag + 'handler-unfinished', 'run() ended while generator handler(s) %r had not finished' % [u[1] for u in unfinished]))
        dup = [e for e in set(entered) if entered.count(e) > 1 and e is not None]
        if dup:
            bad.append((tag + 'dispatched-twice', 'events %r dispatched twice' % dup))
        code = act[1] if len(act) > 1 else None
        if code in (None,):
            ok = res == ('return', None)
        else:
            ok = res == ('raise', 'SystemExit', code)
        if not ok:
            bad.append((tag + 'exit-code:' + act[0], 'run() ended with %r; the stop action was %r' % (res, act)))
    return bad


def pj(program):
    return {'L': program[0], 'pos': program[1], 'action': list(program[2]), 'order': program[3], 'gen': program[4],
            'extra': list(program[5]) if isinstance(program[5], tuple) else program[5]}


def _work(part, nparts, payload):
    tier, seed = payload
    core.quiet_stderr()
    st = core.Stats()
    for idx, program in enumerate(itertools.islice(programs(tier), part, None, nparts)):
        for lazy in (False, True):
            w, marks = execute(program, lazy)
            st.executions += 1
            st.transitions += len(w.log)
            st.interesting((program, lazy))
            st.outcome(tuple(x for x in w.log if x[0] in ('obs', 'enter')) + tuple(m[2] for m in marks))
            if program[4] is not None:
                st.counters['programs_with_generator_link'] += 1
            if lazy:
                st.counters['executions_idling_as_the_library_decides'] += 1
                st.counters['timed_idle_waits_observed'] += sum(1 for x in w.log if x[0] == 'idle-wait')
            if part == seed % nparts and idx in (1, 30):
                st.sample({'program': pj(program), 'lazy': lazy, 'cycles': [list(m[2]) for m in marks], 'log': [list(x) for x in w.log if x[0] != 'iter'][:40]})
            for kind, text in judge(program, w, marks):
                st.fail(kind, '%s [program %r, %s]' % (text, pj(program), 'idle time decided by the library' if lazy else 'driver asks for zero idle time'),
                        dict(pj(program), part='program', lazy=lazy))
    return st


def run(tier, seed, workers):
    total = sum(1 for _ in programs(tier))
    st = core.parallel(_work, (tier, seed), workers, nparts=workers * 4)
    if st.executions != 2 * total:
        st.selfcheck_errors.append('enumeration: %d of %d' % (st.executions, total))
    st.bounds = {'programs': total, 'chain_length': 3, 'cycles': 2, 'actions': len(ACTIONS)}
    from checks import c08_threads
    ts = c08_threads.run(tier, seed, workers)
    st.merge(ts)
    st.states = len(st.outcomes)
    return st


def replay(wj):
    if wj.get('part') == 'threads':
        from checks import c08_threads
        return c08_threads.replay(wj)
    program = (wj['L'], wj['pos'], tuple(wj['action']), wj['order'], wj['gen'], tuple(wj['extra']) if isinstance(wj['extra'], list) else wj['extra'])
    w, marks = execute(program, bool(wj.get('lazy')))
    bad = judge(program, w, marks)
    text = 'program %r\ncycles: %r\nlog:\n  %s\n' % (pj(program), marks, '\n  '.join(map(repr, (x for x in w.log if x[0] != 'iter'))))
    text += ''.join('VIOLATED %s: %s\n' % b for b in bad) or 'all clauses hold\n'
    return (not bad), text
