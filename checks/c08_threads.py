"""C08 part 2 - stop() issued by a second thread, all interleavings with <= k pre-emptions (engine E2)."""
from circuits.core.components import BaseComponent
from circuits.core.events import Event
from circuits.core.handlers import handler

from checks import c03_threads as c3
from mc import core, e2_threads as e2


def execute(code, chain, prefix):
    c3.patch()
    log = []
    # chain >= 10: the application has announced a finite idle time (a timer pending, say: an hour) before the loop goes idle
    limited, chain = chain >= 10, chain % 10
    root = BaseComponent()
    comp = BaseComponent().register(root)
    if limited:
        def on_ge(self, event, *a):
            event.reduce_time_left(3600)
        comp.addHandler(handler('generate_events', priority=50)(on_ge))
    seen = {'started': False}

    def on_started(self, event, *a):
        log.append(('disp', 'started'))
        seen['started'] = True
        if chain:
            log.append(('fire', 'c1'))
            self.fire(Event.create('c1'))

    def on_c1(self, event, *a):
        log.append(('disp', 'c1'))
        if chain > 1:
            log.append(('fire', 'c2'))
            self.fire(Event.create('c2'))

    def on_c2(self, event, *a):
        log.append(('disp', 'c2'))

    def on_stopped(self, event, *a):
        log.append(('disp', 'stopped'))

    comp.addHandler(handler('started')(on_started))
    comp.addHandler(handler('c1')(on_c1))
    comp.addHandler(handler('c2')(on_c2))
    comp.addHandler(handler('stopped')(on_stopped))
    while len(root):
        root.flush()
    ex = e2.Execution(prefix)
    res = {}

    def loop():
        try:
            root.run()
            res['run'] = ('return', None)
        except BaseException as exc:  # noqa: BLE001
            res['run'] = ('raise', type(exc).__name__, getattr(exc, 'code', None))

    def stopper():
        # stop() before run() has started has, by the statement, no effect: wait for `started`
        ex.block(lambda: seen['started'], 'await-started')
        try:
            root.stop(code) if code is not None else root.stop()
            res['stop'] = ('return', None)
        except BaseException as exc:  # noqa: BLE001
            res['stop'] = ('raise', type(exc).__name__, getattr(exc, 'code', None))
        log.append(('stop-returned',))

    ex.add_thread('loop', loop)
    ex.add_thread('stopper', stopper)
    snap = {}

    def on_release(ex_):
        snap['log'] = list(log)
        snap['res'] = dict(res)
        if ex_.terminal != 'finished':
            root.stop()
            # a loop left blocked in its idle wait although the manager is no longer running (that IS the verdict, see judge)
            # would spin there for ever: release it (harness only, after the snapshot)
            ev = getattr(root, '_currently_handling', None)
            if ev is not None and hasattr(ev, 'reduce_time_left'):
                try:
                    ev.reduce_time_left(0)
                except Exception:  # noqa: BLE001
                    pass
    ex.run(on_release)
    return ex, snap.get('log', list(log)), snap.get('res', dict(res))


def judge(code, chain, ex, log, res):
    bad = []
    errors = list(ex.errors)
    if ex.terminal == 'blocked':
        # a blocked loop thread may, as a consequence, not end after release: that is not a harness problem
        errors = [e for e in errors if 'did not terminate after release' not in e]
    if errors:
        return [('harness', '; '.join(errors))]
    if ex.terminal == 'horizon':
        return []
    if ex.terminal == 'blocked':
        if ('stop-returned',) in log:
            bad.append(('threads:stop-did-not-end-run', 'stop() returned but run() is blocked in %r with no thread enabled'
                        % (getattr(ex, 'blocked_snapshot', {}).get('loop'),)))
        else:
            bad.append(('threads:deadlock', 'no thread enabled: %r' % (getattr(ex, 'blocked_snapshot', {}),)))
        return bad
    for name in ('started', 'stopped'):
        n = log.count(('disp', name))
        if n != 1:
            bad.append(('threads:%s-count' % name, '`%s` dispatched %d times before run() returned' % (name, n)))
    for name in ('c1', 'c2'):
        if log.count(('fire', name)) != log.count(('disp', name)):
            bad.append(('threads:not-drained', 'event %s fired %d times, dispatched %d times when run() returned'
                        % (name, log.count(('fire', name)), log.count(('disp', name)))))
    want = ('return', None) if code is None else ('raise', 'SystemExit', code)
    if res.get('run') != want:
        bad.append(('threads:exit-code', 'stop(%r) from a second thread: run() ended with %r' % (code, res.get('run'))))
    return bad


def _explore(items):
    st = core.Stats()
    c3._pin()
    for code, chain, bound, prefix in items:
        stack = [list(prefix)]
        while stack:
            p = stack.pop()
            ex, log, res = execute(code, chain, p)
            if ex.errors and ex.terminal != 'blocked':
                st.counters['executions_repeated_after_harness_trouble'] += 1
                ex, log, res = execute(code, chain, p)
            st.executions += 1
            st.transitions += len(ex.points)
            st.counters['threaded_stop_schedules'] += 1
            st.interesting(('threads', code, chain, tuple(ex.choices)))
            st.outcome(('threads', tuple(log), tuple(sorted(res.items()))))
            if ex.terminal == 'horizon':
                st.cap('threaded stop: execution exceeded %d scheduling points' % ex.maxpoints)
            for kind, text in judge(code, chain, ex, log, res):
                if kind == 'harness':
                    st.selfcheck_errors.append(text)
                else:
                    st.fail(kind, '%s [stop(%r), chain=%d, schedule=%r]' % (text, code, chain, c3.compress(ex.choices)),
                            {'part': 'threads', 'code': code, 'chain': chain, 'choices': ex.choices})
            stack.extend(e2.children(ex, bound))
    return st


def run(tier, seed, workers):
    total = core.Stats()
    items = []
    configs = [(None, 2, 1), (3, 2, 1), (0, 0, 1), (None, 0, 2), (None, 10, 1), (3, 12, 1)] if tier == 'quick' else [
        (None, 0, 3), (3, 0, 2), (0, 0, 2), (None, 2, 2), (3, 2, 2), (None, 10, 2), (3, 12, 2)]
    for code, chain, bound in configs:
        if True:
            ex, log, res = execute(code, chain, [])
            ex2, log2, res2 = execute(code, chain, [])
            if ex.points != ex2.points or log != log2:
                total.selfcheck_errors.append('determinism (threaded stop): default schedule differs')
            total.executions += 1
            total.transitions += len(ex.points)
            for kind, text in judge(code, chain, ex, log, res):
                if kind == 'harness':
                    total.selfcheck_errors.append(text)
                else:
                    total.fail(kind, text + ' [default schedule]', {'part': 'threads', 'code': code, 'chain': chain, 'choices': ex.choices})
            total.bounds['threads_stop(%r)_chain%d' % (code, chain)] = {'preemption_bound': bound, 'points_in_default_schedule': len(ex.points)}
            total.sample({'part': 'threads', 'code': code, 'chain': chain, 'schedule_deviations': [], 'log': [list(x) for x in log], 'result': res})
            items += [(code, chain, bound, k) for k in e2.children(ex, bound)]
    import random
    random.Random(seed + 1).shuffle(items)
    total.merge(core.parallel_items(_explore, items, workers, chunk=max(1, len(items) // (workers * 6))))
    return total


def replay(w):
    ex, log, res = execute(w['code'], w['chain'], w['choices'])
    bad = judge(w['code'], w['chain'], ex, log, res)
    text = 'stop(%r) from a second thread, chain=%d, schedule deviations %r\nterminal=%s log=%r result=%r\n' % (
        w['code'], w['chain'], c3.compress(w['choices']), ex.terminal, log, res)
    text += ''.join('VIOLATED %s: %s\n' % b for b in bad) or 'all clauses hold\n'
    return (not bad), text
