"""C19 - node: remote events run once and return their result; peers cannot harm the loop.

Engine E4.  The real node stack (Node / Client / Server / Protocol / utils) runs on a scripted transport:
`circuits.node.client.TCPClient` and `circuits.node.server.TCPServer` are replaced (module globals, no source
change) by components that only record `write` events; the harness carries the recorded bytes to the other side as
`read` events, cut into segments exactly as the enumerated segmentation says.

  world 'rt' (round trips, driven by tick()):  four trees in one process
        S, T : Node(port)            C : Node() with peers ps -> S and pt -> T        D : Node() with peer pd -> S
     1-3 events in flight over the six routes (client->server through `remote`, server->client through
     Server.send), generated handlers on the receiving side (return / None / raise / generator with a delay /
     no handler), firewalls, segmentations of every byte stream.
     family 'notify-mix': every sequence of 2-3 sends on ONE server->client connection where each send is a
     fire-and-forget notification (Server.send(no_result=True) / send_to / send_all) or an awaited call.
  world 'h' (hostile peer, real Manager.run() driven by a generate_events Driver, as in mc/ghost.py):  one victim
     tree (server role with two connections, or client role with two peers); one connection is the harness playing
     a hostile peer (grammar of JSON mutations / metadata / sizes), the other an honest peer.
  world 'ser' (pure): load_event(dump_event(e)) / load_value(dump_value(v)).
"""
import inspect
import itertools
import json
import os
import re

import circuits.core.manager as cmanager
import circuits.core.values as cvalues
import circuits.node.client as nclient
import circuits.node.node as nnode
import circuits.node.protocol as nproto
import circuits.node.server as nserver
import circuits.node.utils as nutils
from circuits.core.components import BaseComponent
from circuits.core.events import Event
from circuits.core.handlers import handler
from circuits.core.values import Value
from circuits.net.events import connect as net_connect, read as net_read
from circuits.node import Node, remote

from mc import core, ghost

PROPERTY = 'C19'
LEVEL = 'model_checking'
RULE = ('case = (world rt) 1-3 events in flight over the 6 routes of a 4-node topology x argument/result shapes and sizes '
        '(up to 70 000 B) x feedback flags x channel x receiving handler behaviour x firewall predicates x segmentation of each byte '
        'stream (every single cut, byte-at-a-time, every-n, cuts around the delimiter and the 4096-byte read boundaries, all pairs '
        'of cuts in thorough) + every sequence of 2-3 sends on one server->client connection, each a notification (Server.send '
        'no_result=True | send_to | send_all) or an awaited call, x peer handler behaviour per event (return / raise / delayed '
        'generator / handing on with `return self.fire(..)`, distinct results) x {all sends in one burst, each send after the previous packet was written} x 2-4 segmentations '
        '| (world h) one hostile packet from a grammar (truncation at every offset, non-object JSON, missing/'
        'extra keys, wrong JSON type per key, a string as the notify flag naming a local event (with and without a logging receive firewall), sizes up to 1 MiB, nesting, bad UTF-8, every single metadata key and every pair from '
        'dir(Event()) + the attributes the dispatcher reads) against a victim under the real run() with an honest second peer | '
        '(world ser) dump/load round trips; every case executed once on fresh real objects; non-trivial = anything but a single '
        'uncut small event without firewall; distinct = distinct case description')
ASSUMPTIONS = [
    'transport double: circuits.node.client.TCPClient / circuits.node.server.TCPServer are replaced by components that record '
    '`write`; bytes reach the other side as `read` events in order, each byte once (what C11/C12 establish for the real sockets)',
    'all nodes of a case live in one process, as in the library\'s own test-suite; class-level containers of Protocol/Server/Node '
    'are emptied before every case (their sharing inside one case is part of what is explored: the two client nodes use one peer '
    'name for different servers)',
    'argument and result values are JSON values with string keys (tuples / non-string keys are not JSON-representable)',
    'round-trip world is driven by tick() (documented application main loop); the hostile world by the real run()',
    'sizes: small, 5 000 B, 10 000 B, 70 000 B, 1 MiB (hostile) - representatives per threshold, not all sizes',
]

DELIM = nproto.DELIMITER
MISSING = '<missing>'


# ---------------------------------------------------------------------------------------------------
# transport doubles


class FakeSock:
    def __init__(self, name):
        self.name = name

    def getpeername(self):
        return (self.name, 1)

    def __repr__(self):
        return '<sock %s>' % self.name


class FakeTCPClient(BaseComponent):
    channel = 'client'

    def __init__(self, channel=channel, **kwargs):
        super().__init__(channel=channel)
        self.out = []

    @handler('write')
    def _gh_write(self, data):
        self.out.append(bytes(data))

    @handler('connect', 'close')
    def _gh_ignore(self, *args, **kwargs):
        return None


class FakeTCPServer(BaseComponent):
    channel = 'server'

    def __init__(self, bind, channel=channel, **kwargs):
        super().__init__(channel=channel)
        self.out = []
        self.host, self.port = bind if isinstance(bind, tuple) else ('0.0.0.0', bind)

    @handler('write')
    def _gh_write(self, sock, data):
        self.out.append((sock, bytes(data)))

    @handler('close')
    def _gh_ignore(self, *args, **kwargs):
        return None


_PATCHED = False


def patch():
    global _PATCHED
    if _PATCHED:
        return
    nclient.TCPClient = FakeTCPClient
    nserver.TCPServer = FakeTCPServer
    if hasattr(cmanager, 'stderr'):
        cmanager.stderr = open(os.devnull, 'w')
    _PATCHED = True


def reset_class_state():
    """Class-level dicts survive a case; empty them so that cases are independent (ASSUMPTIONS)."""
    for cls, attr in ((nproto.Protocol, '_Protocol__events'), (nserver.Server, '_Server__protocols'), (nnode.Node, '_Node__peers')):
        d = cls.__dict__.get(attr)
        if isinstance(d, dict):
            d.clear()


# ---------------------------------------------------------------------------------------------------
# values


def expand(v):
    """{'$pad': n} -> string of n characters (keeps witnesses small)."""
    if isinstance(v, dict):
        if set(v) == {'$pad'}:
            return ('pad%d-' % v['$pad'] + 'x' * v['$pad'])[:v['$pad']]
        return {k: expand(x) for k, x in v.items()}
    if isinstance(v, list):
        return [expand(x) for x in v]
    return v


def short(v, n=70):
    r = repr(v)
    return r if len(r) <= n else r[:n] + '...(%d chars)' % len(r)


def contains_delim(v):
    return DELIM.decode() in json.dumps(v)


def has_value_key(v):
    if isinstance(v, dict):
        return 'value' in v or any(has_value_key(x) for x in v.values())
    if isinstance(v, list):
        return any(has_value_key(x) for x in v)
    return False


def snapval(v):
    if isinstance(v, Value):
        return ('Value', short(ghost.snapv(v.value), 40), bool(v.errors))
    if isinstance(v, Event):
        return ('Event', v.name)
    if isinstance(v, (BaseComponent, FakeSock)):
        return type(v).__name__
    if callable(v):
        return 'callable'
    return short(v, 60)


DESIGN_ATTRS = {'cause', 'effects', 'complete_channels', 'success_channels', 'alert_done', 'waitingHandlers', 'handler', 'value',
                'name', 'channels', 'node_call_id', 'node_sock'}


def dispatcher_attrs():
    """Attribute names the event loop reads or writes on an event (from the source of core.manager / core.values)."""
    names = set(DESIGN_ATTRS) | {'complete', 'success', 'failure', 'notify', 'stopped', 'cancelled', 'parent', 'args', 'kwargs'}
    try:
        src = inspect.getsource(cmanager) + inspect.getsource(cvalues)
        names |= set(re.findall(r"(?<![\w.])(?:event|self\._currently_handling|cause|self\.event|state\.event)\.([A-Za-z_]\w*)", src))
        names |= set(re.findall(r"[gs]etattr\(\s*(?:event|self\._currently_handling|self\.event)\s*,\s*'(\w+)'", src))
        names |= set(re.findall(r"delattr\(\s*event\s*,\s*'(\w+)'", src))
    except (OSError, TypeError):
        pass
    # attributes of the loop's own generate_events event are not attributes of application events
    own = set(dir(getattr(cmanager, 'generate_events', Event))) - set(dir(Event))
    return sorted(n for n in names if not n.startswith('__') and n not in own)


DISPATCH_ATTRS = dispatcher_attrs()


def meta_keys():
    keys = {k for k in dir(Event()) if not k.startswith('__')}
    keys |= set(DISPATCH_ATTRS) | {'remote_finish', 'errors', 'node_without_result', '_handler_failed'}
    return sorted(keys), ['__class__', '__dict__', '__init__']


# ---------------------------------------------------------------------------------------------------
# trees


LINKS = [('C', 'ps', 'S'), ('C', 'pt', 'T'), ('D', 'pt', 'S')]     # (two client nodes use the same peer name for different servers)
PORTS = {'S': 9001, 'T': 9002}
NROUTES = 6   # route r: link r // 2 ; r % 2 == 0: client -> server (remote), 1: server -> client (Server.send)


def route_info(r):
    ctree, peer, stree = LINKS[r // 2]
    if r % 2 == 0:
        return {'link': r // 2, 'src': ctree, 'dst': stree, 'up': True, 'peer': peer}
    return {'link': r // 2, 'src': stree, 'dst': ctree, 'up': False, 'peer': peer}


def fw_blocks(kind, name):
    if not kind or kind == 'allow':
        return False
    if kind == 'deny':
        return True
    return kind == 'deny:' + name


class Tree:
    """One component tree: app component (channel 'app'), a second one on channel 'other', a Node."""

    def __init__(self, w, name, role, fw=(None, None), peers=()):
        self.w = w
        self.name = name
        self.role = role
        self.root = BaseComponent(channel='app')
        self.other = BaseComponent(channel='other')
        self.other.register(self.root)
        self.socks = {}
        self.tclient = {}
        self.chan = {}
        kw = {}
        if fw[0]:
            kw['send_event_firewall'] = self.firewall('send', fw[0])
        if fw[1]:
            kw['receive_event_firewall'] = self.firewall('recv', fw[1])
        if role == 'server':
            self.node = Node(port=PORTS.get(name, 9000), server_ip='10.0.0.1', **kw)
            self.node.register(self.root)
            self.tserver = self.node.server.server
        else:
            self.node = Node()
            self.node.register(self.root)
            self.tserver = None
            for peer in peers:
                self.chan[peer] = self.node.add(peer, '10.0.0.1', 9000, reconnect_delay=0, **kw)
                client = self.node.get_peer(peer)
                self.tclient[peer] = [c for c in client.components if isinstance(c, FakeTCPClient)][0]
        self.install()
        while len(self.root):
            self.root.flush()

    def firewall(self, which, kind):
        w, name = self.w, self.name

        def fw(event, sock):
            ok = not fw_blocks(kind, event.name)
            w.log.append(('fw', name, which, event.name, ok))
            return ok
        return fw

    def connect(self, key, fire=None):
        sock = self.socks[key] = FakeSock('%s-%s' % (self.name, key))
        (fire or self.root.fire)(net_connect(sock, '10.0.0.2', 40000), self.node.channel)
        return sock

    # -- generated handlers ------------------------------------------------------------------------
    def install(self):
        w, tree = self.w, self

        def go(self, event, k):
            w.log.append(('go', tree.name, k))
            ev = w.sent[k]
            info = w.launch[k]
            if info['up']:
                x = yield self.call(remote(ev, info['peer'], channel=info['ch']))
            else:
                x = yield self.call(Event.create('push', k))
            val = x.value if isinstance(x, Value) else x
            attrs = tuple((a, snapval(getattr(ev, a, MISSING))) for a in w.snap_attrs)
            w.log.append(('res', tree.name, k, w.cmp_result(k, val), bool(getattr(x, 'errors', False)),
                          bool(getattr(ev, 'errors', False)), attrs))

        def push(self, event, k):
            info = w.launch[k]
            return tree.node.server.send(w.sent[k], tree.socks[info['sockkey']])

        def tell(self, event, k):
            info = w.launch[k]
            sock, server = tree.socks[info['sockkey']], tree.node.server
            w.log.append(('tell', tree.name, k, info['nr']))
            if info['nr'] == 'send':
                server.send(w.sent[k], sock, no_result=True)
            elif info['nr'] == 'send_to':
                server.send_to(w.sent[k], [sock])
            else:
                server.send_all(w.sent[k])

        def seq(self, event):
            """family notify-mix: the application's sequence of sends; 'burst': all in one go (an awaited call is a generator
            that writes its packet when the loop first steps it - several of them in no particular order -, so the
            notifications overtake the calls), 'ordered': the next send is made once the packet of the previous one has been
            written to the transport."""
            for k in range(len(w.sent)):
                self.fire(Event.create('tell' if w.launch[k]['nr'] else 'go', k))
                if w.spec['pace'] == 'ordered':
                    for _ in range(20):
                        if w.on_wire(k):
                            break
                        yield None

        def sentinel(self, event):
            w.log.append(('sentinel', tree.name))

        def on_exc(self, event, etype, evalue, tb, handler=None, fevent=None):
            w.log.append(('exc', tree.name, getattr(etype, '__name__', str(etype)), getattr(fevent, 'name', None)))

        self.root.addHandler(handler('go')(go))
        self.root.addHandler(handler('push')(push))
        self.root.addHandler(handler('tell')(tell))
        self.root.addHandler(handler('seq')(seq))
        self.root.addHandler(handler('sentinel')(sentinel))

        def inner(self, event, k):
            return w.results[k]
        self.root.addHandler(handler('inner', channel='*')(inner))

        def innergen(self, event, k):
            yield None
            yield w.results[k]
        self.root.addHandler(handler('innergen', channel='*')(innergen))
        self.root.addHandler(handler('exception', channel='*')(on_exc))
        for k, beh in enumerate(w.behaviours):
            if beh[0] == 'nohandler':
                continue
            for comp, cname in ((self.root, 'app'), (self.other, 'other')):
                comp.addHandler(handler(w.names[k])(self.target(k, beh, cname)))

    def target(self, k, beh, cname):
        w, tree = self.w, self

        def enter(event, a, kw):
            attrs = tuple((n, snapval(getattr(event, n, MISSING))) for n in w.snap_attrs)
            w.log.append(('run', tree.name, cname, k, w.cmp_args(k, event, a, kw), [str(c) for c in event.channels],
                          [bool(event.failure), bool(event.notify)], attrs))

        if beh[0] == 'gen':
            def fn(self, event, *a, **kw):
                enter(event, a, kw)
                for _ in range(beh[2]):
                    yield None
                yield w.results[k]
        elif beh[0] in ('fwd', 'fwdgen'):
            # the handler hands the work on: it returns the Value of an event it fires (`return self.fire(...)`); the result of
            # the call is what that event's handler returns
            def fn(self, event, *a, **kw):
                enter(event, a, kw)
                return self.fire(Event.create('inner' if beh[0] == 'fwd' else 'innergen', k))
        else:
            def fn(self, event, *a, **kw):
                enter(event, a, kw)
                if beh[0] == 'raise':
                    raise ghost.Boom(k)
                if beh[0] == 'none':
                    return None
                return w.results[k]
        fn.__name__ = 'gh_target_%d_%s' % (k, cname)
        return fn


class BaseWorld:
    snap_attrs = ()

    def setup_events(self, events):
        self.events_spec = events
        self.names = [e.get('name', 't%d' % k) for k, e in enumerate(events)]
        self.behaviours = [e['beh'] for e in events]
        self.results = [expand(e['beh'][1]) if e['beh'][0] in ('ret', 'gen', 'fwd', 'fwdgen') else None for e in events]
        self.expect = self.results      # what the sender's waiting handler must receive
        self.args = [expand(e.get('a', [])) for e in events]
        self.kwargs = [expand(e.get('kw', {})) for e in events]
        self.sent = []
        for k, e in enumerate(events):
            ev = Event.create(self.names[k], *self.args[k], **self.kwargs[k])
            fl = e.get('fl', [0, 0, 0])
            ev.success, ev.failure, ev.notify = bool(fl[0]), bool(fl[1]), bool(fl[2])
            self.sent.append(ev)

    def cmp_result(self, k, val):
        if val == self.expect[k] and type(val) is type(self.expect[k]):
            return 'expected'
        return short(val, 50)

    def cmp_args(self, k, event, a, kw):
        if k >= len(self.args):
            return short((a, kw), 60)
        if list(a) == self.args[k] and kw == self.kwargs[k] and event.name == self.names[k]:
            return 'same'
        return short((event.name, a, kw), 60)


# ---------------------------------------------------------------------------------------------------
# world 'rt'


class Net(BaseWorld):
    def __init__(self, spec):
        patch()
        reset_class_state()
        self.spec = spec
        self.log = []
        self.setup_events(spec['events'])
        fw = spec.get('fw', {})
        self.launch = []
        for k, e in enumerate(spec['events']):
            info = dict(route_info(e['r']))
            info['ch'] = e.get('ch')
            info['sockkey'] = info['link']
            info['nr'] = e.get('nr')      # how a fire-and-forget event is sent (None: an awaited call)
            self.launch.append(info)
            if not info['up']:
                self.sent[k].channels = (e.get('ch') or 'app',)
        self.trees = {}
        for name in ('S', 'T'):
            self.trees[name] = Tree(self, name, 'server', tuple(fw.get(name, (None, None))))
        self.trees['C'] = Tree(self, 'C', 'client', tuple(fw.get('C', (None, None))), peers=('ps', 'pt'))
        self.trees['D'] = Tree(self, 'D', 'client', tuple(fw.get('D', (None, None))), peers=('pt',))
        for li, (ctree, peer, stree) in enumerate(LINKS):
            self.trees[stree].connect(li)
        self.cuts = spec.get('cuts', {})
        self.offset = {}
        self.wire = {}
        self.wire_round = {}
        self.segments = 0
        self.cut_hits = 0
        self.crashed = None
        self.rounds = 0

    def chop(self, key, data):
        spec = self.cuts.get(key)
        pos = self.offset.get(key, 0)
        self.offset[key] = pos + len(data)
        if not spec:
            return [data]
        if spec[0] == 'every':
            n = spec[1]
            cuts = range(((pos // n) + 1) * n, pos + len(data), n)
        elif spec[0] == 'delim':
            # one read per packet: a cut after every delimiter (+ spec[1] bytes)
            cuts = sorted({pos + m.end() + spec[1] for m in re.finditer(re.escape(DELIM), data)} & set(range(pos + 1, pos + len(data))))
        else:
            cuts = sorted(o for o in spec[1] if pos < o < pos + len(data))
        segs, last = [], pos
        for o in cuts:
            segs.append(data[last - pos:o - pos])
            last = o
        segs.append(data[last - pos:])
        self.cut_hits += len(segs) - 1
        return segs

    def pump(self):
        moved = 0
        for li, (ctree, peer, stree) in enumerate(LINKS):
            ct, stt = self.trees[ctree], self.trees[stree]
            tc = ct.tclient[peer]
            sock = stt.socks[li]
            if tc.out:
                data = b''.join(tc.out)
                del tc.out[:]
                self.wire.setdefault('%du' % li, []).append(data)
                self.wire_round.setdefault('%du' % li, []).append(self.rounds)
                for seg in self.chop('%du' % li, data):
                    stt.root.fire(net_read(sock, seg), stt.node.channel)
                    moved += 1
            mine = [d for s, d in stt.tserver.out if s is sock]
            if mine:
                stt.tserver.out[:] = [x for x in stt.tserver.out if x[0] is not sock]
                data = b''.join(mine)
                self.wire.setdefault('%dd' % li, []).append(data)
                self.wire_round.setdefault('%dd' % li, []).append(self.rounds)
                for seg in self.chop('%dd' % li, data):
                    ct.root.fire(net_read(seg), ct.chan[peer])
                    moved += 1
        self.segments += moved
        return moved

    def run(self, horizon=60, idle_needed=6):
        if self.spec.get('pace'):
            self.trees[self.launch[0]['src']].root.fire(Event.create('seq'), 'app')
        else:
            for k in range(len(self.sent)):
                src = self.trees[self.launch[k]['src']]
                src.root.fire(Event.create('go', k), 'app')
        idle, lastlen = 0, -1
        try:
            for rnd in range(horizon):
                self.rounds = rnd + 1
                for t in self.trees.values():
                    t.root.tick()
                moved = self.pump()
                active = moved or len(self.log) != lastlen or any(len(t.root) for t in self.trees.values())
                lastlen = len(self.log)
                idle = 0 if active else idle + 1
                if idle >= idle_needed:
                    break
        except BaseException as exc:  # noqa: BLE001 - an exception escaping tick() is a verdict
            self.crashed = '%s: %s' % (type(exc).__name__, exc)
        return self

    def on_wire(self, k):
        """Has the call packet of event k been written to the transport by its sender (a server)?"""
        mark = ('"name": "%s"' % self.names[k]).encode()
        t = self.trees[self.launch[k]['src']]
        return any(mark in d for _, d in t.tserver.out) or any(mark in d for key, v in self.wire.items() if key.endswith('d') for d in v)

    def timeline(self, key):
        """[(round in which the harness carried it, packet)] of one direction of one link (every write is a whole packet)."""
        out = []
        for rnd, data in zip(self.wire_round.get(key, []), self.wire.get(key, [])):
            out.extend((rnd, p) for p in self.packets(key, data))
        return out

    def packets(self, key, data=None):
        """Parsed packets that travelled on one direction of one link: list of ('call', id, name) / ('value', id) / ('junk',)."""
        out = []
        for raw in (b''.join(self.wire.get(key, [])) if data is None else data).split(DELIM):
            if not raw:
                continue
            try:
                d = json.loads(raw.decode('utf-8'))
            except ValueError:
                out.append(('junk',))
                continue
            if isinstance(d, dict) and 'name' in d:
                out.append(('call', d.get('id'), d.get('name')))
            elif isinstance(d, dict) and 'value' in d:
                out.append(('value', d.get('id')))
            else:
                out.append(('junk',))
        return out


def stressor(spec, k, phase='result'):
    """What distinguishes the case from a plain single round trip (first match); phase 'call': the failure is on the way to
    the peer's handler, where the handler's own behaviour and result cannot matter."""
    e = spec['events'][k]
    a, kw = e.get('a', []), e.get('kw', {})
    if phase == 'result' and e['beh'][0] == 'raise':
        return 'handler-raises'
    if phase == 'result' and e['beh'][0] == 'fwdgen':
        return 'handed-on-to-a-generator-handler'
    if contains_delim([a, kw]):
        return 'delimiter-in-arguments'
    if phase == 'result' and e['beh'][0] in ('ret', 'gen') and contains_delim(e['beh'][1]):
        return 'delimiter-in-result'
    if has_value_key([a, kw]):
        return 'value-key-in-arguments'
    if spec.get('cuts'):
        return 'segmented'
    if len(spec['events']) > 1:
        return 'concurrent'
    if spec.get('fw'):
        return 'firewall'
    return 'plain'


def judge_wire(allpk):
    """results only travel back on the link (and direction) a call with that id came in on"""
    bad = []
    for key, pks in allpk.items():
        opp = key[:-1] + ('d' if key.endswith('u') else 'u')
        calls = [p[1] for p in allpk.get(opp, []) if p[0] == 'call']
        for p in pks:
            if p[0] == 'value':
                if p[1] in calls:
                    calls.remove(p[1])
                else:
                    li = int(key[:-1])
                    dest = LINKS[li][2] if key.endswith('u') else LINKS[li][0]
                    bad.append(('result-packet-sent-to-peer-that-did-not-call',
                                'a result packet (id %r) was written to node %s, which has no call with that id outstanding on this connection'
                                % (p[1], dest)))
                    break
    return bad


def judge_rt(spec, w):
    """-> list of (signature, text)."""
    bad = []
    if w.crashed:
        bad.append(('rt:exception-escaped-tick', 'exception escaped tick(): %s' % w.crashed))
        return bad
    log = w.log
    fw = spec.get('fw', {})
    allpk = {key: w.packets(key) for key in w.wire}
    bad.extend(judge_wire(allpk))
    expected_exc = set()
    for k, e in enumerate(spec['events']):
        info = w.launch[k]
        name = w.names[k]
        st = stressor(spec, k)
        stc = stressor(spec, k, 'call')
        sendblocked = fw_blocks(fw.get(info['src'], (None, None))[0], name)
        recvblocked = fw_blocks(fw.get(info['dst'], (None, None))[1], name)
        runs = [x for x in log if x[0] == 'run' and x[3] == k]
        res = [x for x in log if x[0] == 'res' and x[2] == k]
        onwire = [key for key, pks in allpk.items() if any(p[0] == 'call' and p[2] == name for p in pks)]
        tag = 'event %d (%s, %s->%s)' % (k, name, info['src'], info['dst'])
        if sendblocked:
            if onwire:
                bad.append(('firewall-send:transmitted', '%s was rejected by the send firewall but a packet for it was written' % tag))
            if runs:
                bad.append(('firewall-send:dispatched', '%s was rejected by the send firewall but its handler ran' % tag))
            continue
        if recvblocked:
            if runs:
                bad.append(('firewall-receive:dispatched', '%s was rejected by the receive firewall but its handler ran' % tag))
            continue
        want_chan = e.get('ch') or 'app'
        good = [x for x in runs if x[1] == info['dst'] and x[2] == want_chan]
        elsewhere = [x for x in runs if x not in good]
        beh = e['beh'][0]
        if beh == 'raise':
            expected_exc.add((info['dst'], name))
        if elsewhere:
            bad.append((stc + ':executed-elsewhere', '%s: handler ran at %r' % (tag, [(x[1], x[2]) for x in elsewhere])))
        if beh != 'nohandler':
            if not good:
                bad.append((stc + ':not-executed', '%s: handler on the peer never ran (sender %s)'
                            % (tag, 'resumed' if res else 'never resumed')))
                continue
            if len(good) > 1:
                bad.append((stc + ':executed-%d-times' % min(len(good), 2), '%s: handler ran %d times' % (tag, len(good))))
                continue
            g = good[0]
            if g[4] != 'same':
                bad.append((stc + ':arguments-changed', '%s: handler saw %s' % (tag, g[4])))
            if g[5] != [want_chan]:
                bad.append((stc + ':channels-changed', '%s: handler saw channels %r' % (tag, g[5])))
            fl = e.get('fl', [0, 0, 0])
            if g[6] != [bool(fl[1]), bool(fl[2])]:
                bad.append((stc + ':flags-changed', '%s: handler saw failure/notify %r, sent %r' % (tag, g[6], fl[1:])))
        if len(res) == 0:
            bad.append((st + ':sender-not-resumed', '%s: executed on the peer, but the sender\'s waiting handler was never resumed' % tag))
        elif len(res) > 1:
            bad.append((st + ':sender-resumed-twice', '%s: waiting handler resumed %d times' % (tag, len(res))))
        elif beh == 'raise':
            if not (res[0][4] or res[0][5]):
                bad.append((st + ':error-flag-lost', '%s: handler raised but the sender sees no error flag' % tag))
        else:
            if res[0][3] != 'expected':
                bad.append((st + ':wrong-result', '%s: sender got %s, peer handler produced %s' % (tag, res[0][3], short(w.results[k], 50))))
            elif res[0][4] or res[0][5]:
                bad.append((st + ':spurious-error-flag', '%s: sender sees an error flag although the handler did not raise' % tag))
    for x in log:
        if x[0] == 'exc' and (x[1], x[3]) not in expected_exc:
            bad.append(('unexpected-exception:%s' % x[2], 'node %s: a handler for %r raised %s' % (x[1], x[3], x[2])))
    return bad


def nf_kinds(spec):
    return ['N' if e.get('nr') else 'C' for e in spec['events']]


def nf_position(spec, k):
    """Where event k stands in a sequence of notifications and awaited calls on one connection."""
    kinds = nf_kinds(spec)
    if kinds[k] == 'N':
        return 'notification'
    if 'N' in kinds[:k]:
        return 'notification-then-call'
    if 'N' in kinds[k + 1:]:
        return 'call-then-notification'
    return 'calls-only'


def nf_destinations(spec, k):
    """Nodes that must execute event k: the peer of the connection; for send_all every peer connected to the sending server."""
    info = route_info(spec['events'][k]['r'])
    if spec['events'][k].get('nr') == 'send_all':
        return sorted({c for c, _, s in LINKS if s == info['src']})
    return [info['dst']]


def judge_nf(spec, w):
    """Family 'notify-mix': every event (notification or call) runs exactly once on (each of) its peer(s), every awaited call
    resumes its own waiting handler once with ITS event's result and error flag, a notification resumes nobody.
    -> list of (signature, text)."""
    bad = []
    if w.crashed:
        return [('rt:exception-escaped-tick', 'exception escaped tick(): %s' % w.crashed)]
    log = w.log
    allpk = {key: w.packets(key) for key in w.wire}
    bad.extend(judge_wire(allpk))
    kinds = ''.join(nf_kinds(spec))
    expected_exc = set()
    calls = [k for k, c in enumerate(kinds) if c == 'C']
    for k, e in enumerate(spec['events']):
        info = w.launch[k]
        name = w.names[k]
        pos = nf_position(spec, k)
        beh = e['beh'][0]
        dsts = nf_destinations(spec, k)
        tag = 'event %d of the sequence %s on connection %s->%s (%s, %s, peer handler: %s)' % (
            k, kinds, info['src'], info['dst'], name, 'awaited call' if kinds[k] == 'C' else 'notification via ' + e['nr'], beh)
        runs = [x for x in log if x[0] == 'run' and x[3] == k]
        res = [x for x in log if x[0] == 'res' and x[2] == k]
        want = {dst: 1 for dst in dsts}
        # connections of ANOTHER server of the process on which the event was written (one defect, one signature: the
        # executions that follow from it are not reported again, everything else is still judged)
        foreign = [li for li, (c, _, s) in enumerate(LINKS) if s != info['src']
                   and any(p[0] == 'call' and p[2] == name for p in allpk.get('%dd' % li, []))]
        if foreign:
            bad.append(('%s:transmitted-on-connections-of-another-server' % (e.get('nr') or 'call'),
                        '%s: sent by server %s, but also written to %s' % (tag, info['src'], ', '.join(
                            'the connection %s-%s of server %s' % (LINKS[li][0], LINKS[li][1], LINKS[li][2]) for li in foreign))))
            for li in foreign:
                want[LINKS[li][0]] = want.get(LINKS[li][0], 0) + 1
        elsewhere = [x for x in runs if not (x[1] in want and x[2] == 'app')]
        if elsewhere:
            bad.append((pos + ':executed-elsewhere', '%s: handler ran at %r' % (tag, [(x[1], x[2]) for x in elsewhere])))
        executed = True
        for dst in sorted(want):
            good = [x for x in runs if x[1] == dst and x[2] == 'app']
            if beh == 'raise':
                expected_exc.add((dst, name))
            if not good:
                executed = False
                bad.append((pos + ':not-executed', '%s: handler on peer %s never ran' % (tag, dst)))
            elif len(good) != want[dst]:
                bad.append((pos + ':executed-%d-times' % min(len(good), 2), '%s: handler on peer %s ran %d times' % (tag, dst, len(good))))
            else:
                if good[0][4] != 'same':
                    bad.append((pos + ':arguments-changed', '%s: handler saw %s' % (tag, good[0][4])))
                if good[0][5] != ['app']:
                    bad.append((pos + ':channels-changed', '%s: handler saw channels %r' % (tag, good[0][5])))
        if kinds[k] == 'N':
            told = [x for x in log if x[0] == 'tell' and x[2] == k]
            if len(told) != 1:
                bad.append(('harness:notification-sent-%d-times' % len(told), '%s: the harness sent it %d times' % (tag, len(told))))
            if res:
                bad.append((pos + ':resumed-a-waiting-handler', '%s: a handler waiting for it was resumed (%r)' % (tag, res[0][3])))
            continue
        if not executed:
            continue
        if len(res) == 0:
            bad.append((pos + ':sender-not-resumed', '%s: executed on the peer, but the sender\'s waiting handler was never resumed' % tag))
        elif len(res) > 1:
            bad.append((pos + ':sender-resumed-twice', '%s: waiting handler resumed %d times' % (tag, len(res))))
        elif beh == 'raise':
            if not (res[0][4] or res[0][5]):
                others = [j for j in range(len(kinds)) if j != k and res[0][3] == short(w.results[j], 50)]
                bad.append((pos + ':error-flag-lost', '%s: handler raised but the sender sees no error flag (got %s%s)'
                            % (tag, res[0][3], ', the result of event %d' % others[0] if others else '')))
        else:
            if res[0][3] != 'expected':
                others = [j for j in range(len(kinds)) if j != k and res[0][3] == short(w.results[j], 50)]
                bad.append((pos + ':wrong-result', '%s: sender got %s%s, its own peer handler produced %s'
                            % (tag, res[0][3], ' (the result of event %d, a %s)' % (others[0], 'notification' if kinds[others[0]] == 'N' else 'call')
                               if others else '', short(w.results[k], 50))))
            elif res[0][4] or res[0][5]:
                bad.append((pos + ':spurious-error-flag', '%s: sender sees an error flag although its handler did not raise' % tag))
    # nobody but the awaited calls is resumed
    stray = [x for x in log if x[0] == 'res' and x[2] not in calls]
    if stray and not any(sig.endswith(':resumed-a-waiting-handler') for sig, _ in bad):
        bad.append(('notification:resumed-a-waiting-handler', 'waiting handlers resumed for %r, awaited calls are %r' % ([x[2] for x in stray], calls)))
    for x in log:
        if x[0] == 'exc' and (x[1], x[3]) not in expected_exc:
            bad.append(('notify-mix:unexpected-exception:%s' % x[2], 'node %s: a handler for %r raised %s' % (x[1], x[3], x[2])))
    return bad


def run_rt(spec):
    w = Net(spec).run()
    if spec.get('fam') == 'notify-mix':
        return w, judge_nf(spec, w)
    return w, judge_rt(spec, w)


def obs_rt(w):
    return tuple(x[:7] for x in w.log), w.crashed, tuple(sorted((k, len(b''.join(v))) for k, v in w.wire.items()))


# -- case families of world rt ------------------------------------------------------------------------

ARGS = [
    ([], {}),
    ([1, 'two', None, True, 2.5], {}),
    (['éü 中 "q" \\ \n'], {'k': 'v'}),
    ([[1, [2, []]], {'a': {'b': [None]}}], {'opt': [1, {'x': 'y'}]}),
    (['~'], {}),
    (['~~'], {'tilde': '~~'}),
    (['a~~~b'], {}),
    (['x~~~~y', '~~~~~'], {'run': '~' * 7, '~~~~': 8}),
    ([], {'sep': '~~~'}),
    (['"value":'], {}),
    ([], {'value': 1}),
    ([{'value': 2}], {}),
    ([{'$pad': 5000}], {}),
    ([{'$pad': 10000}], {'k': {'$pad': 100}}),
    ([{'$pad': 70000}], {}),
    (['caf\udce9.txt', '\U0001f600 astral'], {'lone': '\ud800'}),      # lone surrogates (what os.fsdecode gives for non-UTF-8 names) - JSON can carry them
]
BEHS = [
    ['ret', 'R'], ['ret', 0], ['ret', False], ['ret', ''], ['ret', []], ['ret', [1, 'a', None]], ['ret', {'a': {'b': 1}}],
    ['ret', 'x~~~y'], ['ret', 'r\udce9 \U0001f600'], ['ret', {'value': 1, 'name': 'n'}], ['ret', {'$pad': 5000}], ['ret', {'$pad': 10000}], ['ret', {'$pad': 70000}],
    ['none', None], ['raise', None], ['gen', 'G', 1], ['gen', {'$pad': 5000}, 2], ['nohandler', None], ['fwd', 'F'], ['ret', 'x~~~~y ~~~~~ ' + '~' * 8],
]
# (not in the alphabet: ['fwdgen', ..] - handing on to an event whose handler is a generator: when the call's own handlers are done
# the handed-on event is not, the value is unresolved (None) for a local caller resumed at that moment as well; the statement does
# not say that a remote caller gets more than that)
FLAGS = [[s, f, n] for s in (0, 1) for f in (0, 1) for n in (0, 1)]


def ev(r, a=None, kw=None, fl=None, ch=None, beh=None):
    e = {'r': r, 'beh': beh or ['ret', 'R']}
    if a:
        e['a'] = a
    if kw:
        e['kw'] = kw
    if fl and any(fl):
        e['fl'] = fl
    if ch:
        e['ch'] = ch
    return e


_LEN_CACHE = {}


def stream_lengths(spec):
    """Lengths of the byte streams of the uncut case (a dry run; cached)."""
    key = json.dumps(spec, sort_keys=True)
    if key not in _LEN_CACHE:
        base = dict(spec)
        base.pop('cuts', None)
        w = Net(base).run()
        _LEN_CACHE[key] = {k: [len(x) for x in v] for k, v in w.wire.items()}
    return _LEN_CACHE[key]


def cases_variety(tier):
    for r in (0, 1) if tier == 'quick' else range(NROUTES):
        for ai, (a, kw) in enumerate(ARGS):
            for bi, beh in enumerate(BEHS):
                yield {'w': 'rt', 'fam': 'variety', 'events': [ev(r, a, kw, None, None, beh)]}
                if tier == 'thorough':
                    yield {'w': 'rt', 'fam': 'variety', 'events': [ev(r, a, kw, [1, 1, 1], 'other', beh)]}
        for ai in (0, 1):
            a, kw = ARGS[ai]
            for bi in range(len(BEHS)) if tier == 'thorough' else (0, 12, 13, 14, 16):
                for fl in FLAGS:
                    for ch in (None, 'app', 'other'):
                        if any(fl) or ch:
                            yield {'w': 'rt', 'fam': 'variety', 'events': [ev(r, a, kw, fl, ch, BEHS[bi])]}


def around(points, lo, hi, radius=1):
    s = set()
    for p in points:
        for d in range(-radius, radius + 1):
            if lo < p + d < hi:
                s.add(p + d)
    return sorted(s)


def cases_cuts(tier):
    small = [
        ev(0, [1, 'two'], {'k': 'v'}),
        ev(1, ['x'], None, [0, 1, 1], 'other', ['gen', [1, {'a': 'b'}], 1]),
    ]
    if tier == 'thorough':
        small += [
            ev(0, ['éü 中 "q" \\ \n', {'value': 2}], {'sep': 'a~~~b', 'value': 1}, [1, 1, 1], None, ['ret', {'value': 'x~~~y', 'name': 'n'}]),
            ev(3, [[1, [2, []]], {'a': {'b': [None]}}], {'opt': [1, {'x': 'y'}]}, None, 'other', ['gen', '~', 2]),
            ev(4, [], None, None, None, ['none', None]),
            ev(5, ['~~'], None, [0, 1, 0], None, ['raise', None]),
        ]
    for bi, e in enumerate(small):
        base = {'w': 'rt', 'fam': 'cut1', 'events': [e]}
        lens = stream_lengths(base)
        li = e['r'] // 2
        ck, vk = ('%du' % li, '%dd' % li) if e['r'] % 2 == 0 else ('%dd' % li, '%du' % li)
        n_call, n_val = sum(lens[ck]), sum(lens[vk])
        for key, n in ((ck, n_call), (vk, n_val)):
            for o in range(1, n):
                yield dict(base, cuts={key: ['at', [o]]})
            for n_every in (1, 2, 3, 7, 64):
                yield dict(base, cuts={key: ['every', n_every]})
            pairs = itertools.combinations(range(1, n), 2)
            for a, b in pairs:
                if (tier == 'quick' or bi > 2) and not (b >= n - 4 or b - a <= 1 or a <= 1):
                    continue
                yield dict(base, cuts={key: ['at', [a, b]]}, fam='cut2')
        yield dict(base, cuts={ck: ['every', 1], vk: ['every', 1]})
        for o1 in around([n_call - 3, n_call - 1, n_call // 2], 0, n_call):
            for o2 in around([n_val - 3, n_val - 1, n_val // 2], 0, n_val):
                yield dict(base, cuts={ck: ['at', [o1]], vk: ['at', [o2]]})
    # two and three packets back to back in one stream
    for r in (0, 1):
        for n in (2, 3):
            base = {'w': 'rt', 'fam': 'cut-multi', 'events': [ev(r, [k], None, None, None, ['ret', 'R%d' % k]) for k in range(n)]}
            lens = stream_lengths(base)
            li = r // 2
            ck, vk = ('%du' % li, '%dd' % li) if r % 2 == 0 else ('%dd' % li, '%du' % li)
            for key in (ck, vk):
                tot = sum(lens[key])
                for o in range(1, tot):
                    if tier == 'quick' and n == 3 and o % 3:
                        continue
                    yield dict(base, cuts={key: ['at', [o]]})
                for n_every in (1, 5, 64):
                    yield dict(base, cuts={key: ['every', n_every]})
    # packets larger than the 4096-byte read buffer
    for r in (0, 1):
        for size in (5000, 10000, 70000):
            for where in ('args', 'result'):
                if where == 'args':
                    e = ev(r, [{'$pad': size}], {'k': 1})
                else:
                    e = ev(r, ['q'], None, None, None, ['ret', [{'$pad': size}, 'tail']])
                base = {'w': 'rt', 'fam': 'cut-large', 'events': [e]}
                lens = stream_lengths(base)
                li = r // 2
                ck, vk = ('%du' % li, '%dd' % li) if r % 2 == 0 else ('%dd' % li, '%du' % li)
                key = ck if where == 'args' else vk
                n = sum(lens[key])
                for n_every in ((4096, 1024, 1460, 65536) if size > 10000 or tier == 'thorough' else (4096, 1460)):
                    if n_every < n:
                        yield dict(base, cuts={key: ['every', n_every]})
                if size == 70000 and tier == 'quick':
                    continue
                pts = [1, n - 1, n - 2, n - 3, n - 4] + list(range(4096, n, 4096))
                for o in around(pts, 0, n, 1):
                    yield dict(base, cuts={key: ['at', [o]]})
                if tier == 'thorough':
                    for a, b in itertools.combinations(around(pts, 0, n, 0), 2):
                        yield dict(base, cuts={key: ['at', [a, b]]})


def cases_concurrent(tier):
    for n in (2, 3):
        for routes in itertools.product(range(NROUTES), repeat=n):
            orders = list(itertools.permutations(range(n)))
            for delays in orders:
                for style in ('gen', 'ret') if delays == orders[0] else ('gen',):
                    evs = []
                    for k in range(n):
                        beh = ['gen', 'G%d' % k, delays[k]] if style == 'gen' else ['ret', 'R%d' % k]
                        evs.append(ev(routes[k], [k, 'arg%d' % k], None, None, None, beh))
                    yield {'w': 'rt', 'fam': 'concurrent', 'events': evs}
            if tier == 'thorough' or n == 2:
                for mix in (('raise', 'ret', 'none'), ('nohandler', 'gen', 'raise'), ('none', 'raise', 'gen')):
                    evs = []
                    for k in range(n):
                        b = mix[k]
                        beh = {'raise': ['raise', None], 'ret': ['ret', 'R%d' % k], 'none': ['none', None],
                               'nohandler': ['nohandler', None], 'gen': ['gen', 'G%d' % k, 1]}[b]
                        evs.append(ev(routes[k], [k], None, None, None, beh))
                    yield {'w': 'rt', 'fam': 'concurrent-mixed', 'events': evs}
                if tier == 'thorough':
                    for delays in orders:
                        evs = [ev(routes[k], [k, 'arg%d' % k], None, None, None, ['gen', 'G%d' % k, delays[k]]) for k in range(n)]
                        for n_every in (7, 1):
                            cuts = {'%d%s' % (li, d): ['every', n_every] for li in range(3) for d in 'ud'}
                            yield {'w': 'rt', 'fam': 'concurrent-cut', 'events': evs, 'cuts': cuts}
                evs = [ev(routes[k], [k, {'$pad': 5000}], None, None, None, ['gen', [k, {'$pad': 5000}], n - k]) for k in range(n)]
                cuts = {'%d%s' % (li, d): ['every', 4096] for li in range(3) for d in 'ud'}
                yield {'w': 'rt', 'fam': 'concurrent-large', 'events': evs, 'cuts': cuts}


def cases_many(tier):
    """many events in flight at once on the same connections (call ids, result routing and buffers at scale)"""
    for n in ((30,) if tier != 'thorough' else (30, 120)):
        for r0 in range(NROUTES):
            evs = [ev((r0 + (k % 2) * (k // 2)) % NROUTES if k % 5 == 0 else r0, [k, 'arg%d' % k], None, None, None,
                      ['gen', 'G%d' % k, (k * 7) % 4] if k % 3 else ['ret', 'R%d' % k]) for k in range(n)]
            yield {'w': 'rt', 'fam': 'concurrent-many', 'events': evs}


FWKINDS = [None, 'allow', 'deny', 'deny:t1', 'deny:t0']


def cases_firewall(tier):
    for r in range(NROUTES) if tier == 'thorough' else (0, 1, 3, 4):
        info = route_info(r)
        for n in (1, 2):
            for fs in FWKINDS:
                for fr in FWKINDS:
                    if fs is None and fr is None:
                        continue
                    for both in (False, True):
                        # both: the firewall pair is installed on both ends (each end has a send and a receive predicate)
                        fw = {info['src']: [fs, fr if both else None], info['dst']: [fs if both else None, fr]}
                        evs = [ev(r, [k], None, None, None, ['ret', 'R%d' % k]) for k in range(n)]
                        yield {'w': 'rt', 'fam': 'firewall', 'events': evs, 'fw': fw}
                        if n == 1:
                            # the predicates must be consulted whatever the event carries: arguments that look like a result
                            # packet ('"value":'), that contain the packet delimiter, that are large
                            for a, kw in (([{'value': 3}], {'value': 1}), (['x~~~y'], {'sep': 'a~~~b', 'value': None}), ([{'$pad': 5000}], None)):
                                yield {'w': 'rt', 'fam': 'firewall', 'events': [ev(r, a, kw, None, None, ['ret', 'R0'])], 'fw': fw}
                        if n == 2 and tier == 'thorough':
                            evs = [ev(r, [0]), ev(r ^ 1, [1], None, None, None, ['gen', 'G', 1])]
                            yield {'w': 'rt', 'fam': 'firewall', 'events': evs, 'fw': fw}


NF_STYLES = ['send', 'send_to', 'send_all']      # Server.send(event, sock, no_result=True) / send_to(event, [sock]) / send_all(event)
NF_SEGS = [None, ['every', 1], ['every', 7], ['delim', 0]]


def nf_beh(b, kind, k, delay):
    val = '%s%d' % (kind, k)       # distinct per event of the sequence
    return {'ret': ['ret', val], 'raise': ['raise', None], 'gen': ['gen', val, delay]}[b]


def cases_notify(tier):
    """Every sequence of 2-3 sends on one server->client connection, each a notification or an awaited call; made in one burst
    or each after the previous one has been written (see Tree.install.seq)."""
    segs = NF_SEGS + ([['delim', 1]] if tier == 'thorough' else [])
    for r in (1, 3, 5) if tier == 'thorough' else (1, 3):      # 1, 5: server S has two connections (send_all reaches both); 3: T has one
        for n in (2, 3):
            for kinds in itertools.product('NC', repeat=n):
                if 'N' not in kinds:
                    stylesets = [()]
                elif tier == 'thorough':
                    stylesets = list(itertools.product(NF_STYLES, repeat=kinds.count('N')))
                else:
                    stylesets = [(s,) * kinds.count('N') for s in NF_STYLES]
                for behs in itertools.product(('ret', 'raise', 'gen'), repeat=n):
                    for delay in (2,) if tier == 'quick' or 'gen' not in behs else (1, 2, 3):
                        for styles in stylesets:
                            if delay != 2 and len(set(styles)) > 1:
                                continue        # other delays: with one way of notifying per sequence
                            it = iter(styles)
                            evs = []
                            for k in range(n):
                                e = ev(r, [k], None, None, None, nf_beh(behs[k], kinds[k], k, delay))
                                if kinds[k] == 'N':
                                    e['nr'] = next(it)
                                evs.append(e)
                            for pace in ('burst', 'ordered'):
                                for seg in segs:
                                    # quick, 3 sends: byte-at-a-time only for 2 sends (3 times the cost of the others)
                                    if tier == 'quick' and n == 3 and (seg == ['every', 1] or (pace == 'ordered' and seg == ['every', 7])):
                                        continue
                                    # thorough: different ways of notifying within one sequence: uncut and one packet per read
                                    if len(set(styles)) > 1 and seg not in (None, ['delim', 0]):
                                        continue
                                    spec = {'w': 'rt', 'fam': 'notify-mix', 'pace': pace, 'events': evs}
                                    if seg:
                                        spec['cuts'] = {'%d%s' % (li, d): seg for li in range(3) for d in 'ud'}
                                    yield spec


def cases_rt(tier):
    return itertools.chain(cases_variety(tier), cases_cuts(tier), cases_concurrent(tier), cases_many(tier), cases_firewall(tier), cases_notify(tier))


# ---------------------------------------------------------------------------------------------------
# world 'h': hostile peer against a victim under the real run()

CALL_BASE = {'id': 3, 'name': 'th', 'args': [1], 'kwargs': {'k': 2}, 'success': False, 'failure': False, 'channels': ['app'],
             'notify': False, 'meta': {}}
VALUE_BASE = {'id': 0, 'errors': False, 'value': 'EVIL', 'meta': {}}
HONEST_CALL = {'id': 7, 'name': 't0', 'args': ['honest'], 'kwargs': {}, 'success': False, 'failure': False, 'channels': ['app'],
               'notify': False, 'meta': {}}
HONEST_VALUE = {'id': 0, 'errors': False, 'value': 'HONEST', 'meta': {}}


def hostile_bytes(h):
    """Recipe -> bytes sent by the hostile peer."""
    kind = h['kind']
    if kind == 'raw':
        return h['text'].encode('latin-1')
    if kind == 'json':
        return json.dumps(h['doc']).encode('utf-8') + DELIM
    if kind == 'big-call':
        d = dict(CALL_BASE, args=['x' * h['n']])
        return json.dumps(d).encode('utf-8') + (DELIM if h.get('delim', True) else b'')
    if kind == 'big-value':
        d = dict(VALUE_BASE, value='x' * h['n'])
        return json.dumps(d).encode('utf-8') + (DELIM if h.get('delim', True) else b'')
    if kind == 'nest':
        return (h['open'] * h['n']).encode() + (DELIM if h.get('delim', True) else b'')
    if kind == 'junk':
        return (h['unit'].encode('latin-1') * h['n'])
    raise ValueError(kind)


class Victim(BaseWorld, ghost.RunWorld):
    snap_attrs = tuple(DISPATCH_ATTRS)

    def __init__(self, spec):
        patch()
        reset_class_state()
        self.spec = spec
        role = spec['victim']
        # events 0: call towards the hostile peer, 1: call towards the honest peer; targets: t0 (honest call), th (hostile call)
        self.setup_events([{'r': 0, 'name': 't0', 'a': ['honest'], 'beh': ['ret', 'HR']},
                           {'r': 0, 'name': 'th', 'a': [1], 'kw': {'k': 2}, 'beh': ['ret', 'TH']}])
        self.expect = ['HONEST', 'HONEST']
        self.sent = [Event.create('q0', 'to-hostile'), Event.create('q1', 'to-honest')]
        for e in self.sent:
            e.channels = ('app',)
        script = [self.act_connect, self.act_inflight, None, self.act_hostile, None, self.act_honest, None, self.act_honest_value]
        ghost.RunWorld.__init__(self, [], script=script, horizon=40, idle_needed=3)
        fw = (None, 'allow') if spec.get('fw') else (None, None)     # a receive firewall that lets everything pass and logs what it was asked
        if role == 'S':
            self.tree = Tree(self, 'V', 'server', fw=fw)
            self.launch = [{'up': False, 'sockkey': 'h'}, {'up': False, 'sockkey': 'c'}]
        else:
            self.tree = Tree(self, 'V', 'client', fw=fw, peers=('ph', 'pc'))
            self.launch = [{'up': True, 'peer': 'ph', 'ch': 'app'}, {'up': True, 'peer': 'pc', 'ch': 'app'}]
        self.dispatched = []
        self.disp_mark = 0
        world = self

        def tap(self, event, *a, **k):
            world.dispatched.append(event.name)
        self.tree.root.addHandler(handler(channel='*', priority=1000)(tap))     # every event dispatched in the victim's tree
        self.tree.root.register(self.root)
        while len(self.root):
            self.root.flush()
        del self.log[:]
        self.hostile_at = None

    # names/behaviours used by Tree.install(): two target handlers
    def deliver(self, which, data):
        t = self.tree
        if self.spec['victim'] == 'S':
            t.root.fire(net_read(t.socks[which], data), t.node.channel)
        else:
            t.root.fire(net_read(data), t.chan['p' + which])

    def act_connect(self, w):
        if self.spec['victim'] == 'S':
            self.tree.connect('h')
            self.tree.connect('c')

    def act_inflight(self, w):
        inflight = self.spec.get('inflight')
        if inflight == 'hostile':
            self.tree.root.fire(Event.create('go', 0), 'app')
        elif inflight == 'honest':
            self.tree.root.fire(Event.create('go', 1), 'app')

    def act_hostile(self, w):
        self.hostile_at = self.iterations
        self.disp_mark = len(self.dispatched)
        self.log.append(('hostile-delivered',))
        data = hostile_bytes(self.spec['hostile'])
        cut = self.spec.get('cut')
        if cut is None:
            segs = [data]
        elif cut == 'mss':
            segs = [data[i:i + 4096] for i in range(0, len(data), 4096)]
        else:
            segs = [data[:cut], data[cut:]]
        for s in segs:
            if s:
                self.deliver('h', s)

    def act_honest(self, w):
        self.tree.root.fire(Event.create('sentinel'), 'app')
        self.deliver('c', json.dumps(HONEST_CALL).encode() + DELIM)

    def act_honest_value(self, w):
        if self.spec.get('inflight') == 'honest':
            self.deliver('c', json.dumps(HONEST_VALUE).encode() + DELIM)

    def written(self):
        """what the victim wrote, per connection: list of (conn, parsed packet or raw)"""
        t = self.tree
        out = []
        if t.tserver is not None:
            names = {id(s): k for k, s in t.socks.items()}
            for s, d in t.tserver.out:
                out.append((names.get(id(s), '?'), d))
        else:
            for peer, tc in t.tclient.items():
                for d in tc.out:
                    out.append((peer[1:], d))
        return out


def run_h(spec):
    w = Victim(spec)
    w.result = w.run()
    return w


def strip_meta(data):
    """Packets the victim wrote, without the `meta` member (an echo of harmless custom attributes is not behaviour)."""
    out = []
    for raw in data.split(DELIM):
        try:
            doc = json.loads(raw.decode('utf-8'))
        except ValueError:
            out.append(raw if len(raw) < 200 else (len(raw), core.h64(raw)))
            continue
        if isinstance(doc, dict):
            doc.pop('meta', None)
        out.append(short(doc, 200) if len(raw) < 1000 else (len(raw), core.h64(repr(doc))))
    return tuple(out)


def obs_h(w):
    """Comparable observation: what was dispatched after the hostile packet, what the handlers saw, what was written."""
    i = next((n for n, x in enumerate(w.log) if x == ('hostile-delivered',)), 0)
    seq = tuple(x[1] if x[0] == 'obs' else x[0] for x in w.log[i:] if x[0] not in ('iter', 'driver-stop'))
    runs = tuple((x[3], x[4], tuple(x[5]), tuple(x[6]), x[7]) for x in w.log if x[0] == 'run')
    res = tuple((x[2], x[3], x[4], x[6]) for x in w.log if x[0] == 'res')
    # per connection (the order in which handlers of equal priority on different connections write is not specified)
    written = tuple(sorted((c, tuple(strip_meta(d) for c2, d in w.written() if c2 == c)) for c in {c for c, _ in w.written()}))
    return {'seq': seq, 'runs': runs, 'res': res, 'written': written, 'result': w.result, 'stopped_by_driver': w.stopped_by_driver}


def judge_h(spec, w):
    """Liveness / isolation clauses; -> list of (effect, text)."""
    bad = []
    log = w.log
    if w.result != ('return', None) or not w.stopped_by_driver:
        bad.append(('loop-ended', 'run() ended by itself after the hostile packet (%r, stopped_by_driver=%r, %d iterations)'
                    % (w.result, w.stopped_by_driver, w.iterations)))
        return bad
    if not any(x[0] == 'sentinel' for x in log):
        bad.append(('later-event-not-dispatched', 'an event fired after the hostile packet was never dispatched'))
    honest_runs = [x for x in log if x[0] == 'run' and x[3] == 0 and x[4] == 'same']
    honest_written = []
    for conn, d in w.written():
        for raw in d.split(DELIM):
            try:
                doc = json.loads(raw.decode('utf-8')) if raw else None
            except ValueError:
                doc = None
            if isinstance(doc, dict) and doc.get('id') == 7 and 'value' in doc and conn == 'c':
                honest_written.append(doc.get('value'))
    if len(honest_runs) != 1 or honest_written != ['HR']:
        bad.append(('honest-connection-broken', 'the honest peer\'s later call ran %d time(s), results written to it: %r'
                    % (len(honest_runs), honest_written)))
    if spec.get('inflight') == 'honest':
        res = [x for x in log if x[0] == 'res' and x[2] == 1]
        if len(res) != 1:
            bad.append(('honest-call-lost', 'the call in flight to the honest peer was resumed %d times' % len(res)))
        elif res[0][3] != 'expected':
            bad.append(('honest-call-hijacked', 'the call in flight to the honest peer returned %s (the honest peer answered %r)'
                        % (res[0][3], 'HONEST')))
    for x in log:
        if x[0] == 'exc' and x[3] in ('go', 'push', 'remote', 'sentinel', 't0'):
            bad.append(('local-handler-failed:%s' % x[2], 'a local handler for %r raised %s' % (x[3], x[2])))
    # the only events a packet can make the victim dispatch are the event it names (the name the receive firewall is asked
    # about) and the feedback events derived from that name; everything else dispatched is what the victim dispatches anyway
    stray = sorted(set(w.dispatched[w.disp_mark:]) - usual_names(spec) - derived_names(spec, w) - {'exception'})   # (the loop's own failure report)
    if stray:
        bad.append(('dispatched-unapproved-name', 'the packet made the victim dispatch event(s) %r: neither the event it names '
                    '(the name a receive firewall is asked about) nor feedback derived from it' % (stray,)))
    return bad


_USUAL = {}
FEEDBACK = ('', '_success', '_failure', '_complete', '_done', '_value_changed')


def usual_names(spec):
    """names dispatched in the same scenario when the hostile peer sends the unmodified packet (call: with notify off and on)"""
    key = (spec['victim'], spec['path'], spec.get('inflight'), bool(spec.get('fw')))
    if key not in _USUAL:
        names = set()
        base = CALL_BASE if spec['path'] == 'call' else VALUE_BASE
        for doc in ([dict(base, notify=False), dict(base, notify=True, success=True, failure=True)] if spec['path'] == 'call' else [base]):
            w = run_h({'w': 'h', 'victim': spec['victim'], 'path': spec['path'], 'inflight': spec.get('inflight'), 'fw': spec.get('fw'),
                       'cls': 'wellformed', 'hostile': {'kind': 'json', 'doc': doc}})
            names |= set(w.dispatched)
        _USUAL[key] = names
    return _USUAL[key]


def derived_names(spec, w):
    named = set()
    if spec.get('fw'):
        named = {x[3] for x in w.log if x[0] == 'fw' and x[2] == 'recv' and x[4]}
    else:
        for raw in hostile_bytes(w.spec['hostile']).split(DELIM):
            try:
                doc = json.loads(raw.decode('utf-8'))
            except (ValueError, RecursionError):
                continue
            if isinstance(doc, dict) and isinstance(doc.get('name'), str):
                named.add(doc['name'])
    return {n + sfx for n in named for sfx in FEEDBACK}


def judge_meta(spec, w, base):
    """Differential clause for metadata: attributes the dispatcher uses and everything that happens afterwards are what
    they are without the hostile metadata."""
    bad = []
    a, b = obs_h(w), obs_h(base)
    path = spec['path']
    snaps_a = [x[4] for x in a['runs'] if x[0] == 1] if path == 'call' else [x[3] for x in a['res']]
    snaps_b = [x[4] for x in b['runs'] if x[0] == 1] if path == 'call' else [x[3] for x in b['res']]
    if len(snaps_a) == len(snaps_b) == 1:
        diff = sorted(n for (n, va), (_, vb) in zip(snaps_a[0], snaps_b[0]) if va != vb)
        if diff:
            bad.append(('attribute-overwritten', 'the event the %s sees differs from a local one in %s'
                        % ('handler' if path == 'call' else 'sender', ', '.join('%s=%s' % (n, dict(snaps_a[0])[n]) for n in diff))))
            return bad
    if a != b:
        what = [k for k in a if a[k] != b[k]]
        bad.append(('behaviour-changed', 'with the metadata the victim behaves differently (%s): %s  vs without: %s'
                    % (','.join(what), short(a[what[0]], 200), short(b[what[0]], 200))))
    return bad


JVALS = [None, True, 0, -1, 1.5, '', 's', 'ab', [], [1], ['a'], [[1]], [{}], {}, {'a': 1}, [None]]


def jclass(v):
    if isinstance(v, list) and v:
        return 'list-of-' + jclass(v[0])
    return {type(None): 'null', bool: 'bool', int: 'int', float: 'float', str: 'str', list: 'list', dict: 'dict'}[type(v)]


def cases_hostile(tier):
    """yield (class label, partial spec)"""
    for victim in ('S', 'C'):
        for path, basedoc in (('call', CALL_BASE), ('value', VALUE_BASE)):
            inflights = [None] if path == 'call' else ['hostile', 'honest']
            text = json.dumps(basedoc)
            for inflight in inflights:
                common = {'w': 'h', 'victim': victim, 'path': path, 'inflight': inflight}
                # the unmodified packet
                yield dict(common, cls='wellformed', hostile={'kind': 'json', 'doc': basedoc})
                # truncation at every offset, with and without a delimiter after it
                for o in range(0, len(text)):
                    if tier == 'quick' and inflight == 'hostile' and o % 2:
                        continue
                    yield dict(common, cls='truncated', hostile={'kind': 'raw', 'text': text[:o] + '~~~'})
                    yield dict(common, cls='incomplete-tail', hostile={'kind': 'raw', 'text': text[:o]})
                for t in ('1', '"s"', '[]', '[1, 2]', 'null', 'true', '{}', '[{}]', '1e999', 'NaN', '-Infinity', '{"a": NaN}',
                          '9' * 5000, '"\\ud800"', '{"id": 0}', '{"value": 1}', '{"name": "th"}', '"value":', '{"value":',
                          '"name"', ' ', '\x00', '{"id":0,"id":1,"errors":false,"value":1,"meta":{}}'):
                    yield dict(common, cls='non-object-or-partial', hostile={'kind': 'raw', 'text': t + '~~~'})
                for k in basedoc:
                    d = {x: y for x, y in basedoc.items() if x != k}
                    yield dict(common, cls='missing-key:' + k, hostile={'kind': 'json', 'doc': d})
                for k1, k2 in itertools.combinations(basedoc, 2):
                    d = {x: y for x, y in basedoc.items() if x not in (k1, k2)}
                    yield dict(common, cls='missing-key:%s+%s' % (k1, k2), hostile={'kind': 'json', 'doc': d})
                for extra in ({'extra': 1}, {'__class__': 'x'}, {'value': 1}, {'name': 'th'}, {'cause': 1, 'effects': 'x'}):
                    yield dict(common, cls='extra-key', hostile={'kind': 'json', 'doc': dict(basedoc, **extra)})
                for k in basedoc:
                    for v in JVALS:
                        if type(v) is type(basedoc[k]) and v == basedoc[k]:
                            continue
                        yield dict(common, cls='wrong-type:%s:%s' % (k, jclass(v)), hostile={'kind': 'json', 'doc': dict(basedoc, **{k: v})})
                if path == 'call':
                    # `notify` is a flag on the wire; a string there must not become the name of an event that is dispatched
                    for v in ('sentinel', 'go', 'q0', 'evil', 'th'):
                        for fw in (False, True):
                            yield dict(common, cls='notify-names-an-event', fw=fw, hostile={'kind': 'json', 'doc': dict(basedoc, notify=v)})
                if path == 'value':
                    for i in (1, 2, 0.0, 1.0, '0', -1, 2 ** 70):
                        yield dict(common, cls='other-id', hostile={'kind': 'json', 'doc': dict(basedoc, id=i)})
                    yield dict(common, cls='many-ids', hostile={'kind': 'raw', 'text': ''.join(
                        json.dumps(dict(basedoc, id=i)) + '~~~' for i in range(8))})
                # bytes
                for t in ('\xff\xfe~~~', '\xc3~~~', '\xc3', '{"id": "\xc3\x28"}~~~', '\xff' * 10 + '~~~' + text + '~~~',
                          '~', '~~', '~~~', '~~~~', '~~~' * 50, text + '~~' + text + '~~~', text + '~~~' + text[:9], '~~~' + text + '~~~'):
                    yield dict(common, cls='bytes', hostile={'kind': 'raw', 'text': t})
                # sizes and nesting
                big = 'big-call' if path == 'call' else 'big-value'
                for n in (5000, 70000, 2 ** 20):
                    for cut in (None, 'mss'):
                        for delim in (True, False):
                            if tier == 'quick' and n == 2 ** 20 and (victim == 'C' or inflight == 'honest') and cut is None:
                                continue
                            yield dict(common, cls='oversized', hostile={'kind': big, 'n': n, 'delim': delim}, cut=cut)
                for opener in ('[', '{"a":', '[{"a":'):
                    for n in (500, 100000):
                        yield dict(common, cls='deep-nesting', hostile={'kind': 'nest', 'open': opener, 'n': n})
                yield dict(common, cls='junk-flood', hostile={'kind': 'junk', 'unit': '\x00\xff{"', 'n': 20000}, cut='mss')
                # a hostile packet cut into two reads (segmentation x hostility)
                for o in range(1, len(text) + 3, 5 if tier == 'quick' else 1):
                    d = dict(basedoc, meta={'x': 1})
                    yield dict(common, cls='wellformed-cut', hostile={'kind': 'json', 'doc': d}, cut=o)


def meta_values(tier, pair):
    if pair:
        return [1, 'x'] if tier == 'quick' else [0, 1, 'x', ['x']]
    return [True, False, 0, 1, 2, -1, 'x', '', [], ['x'], {'a': 1}, None, 1.5]


def cases_meta(tier):
    keys, dunders = meta_keys()
    for victim in ('S', 'C'):
        for path, basedoc in (('call', CALL_BASE), ('value', VALUE_BASE)):
            common = {'w': 'h', 'victim': victim, 'path': path, 'inflight': None if path == 'call' else 'hostile', 'cls': 'meta'}
            for k in keys + dunders:
                for v in meta_values(tier, False):
                    yield dict(common, meta={k: v})
            if tier == 'quick' and victim == 'C':
                continue        # pairs against the client role: thorough only
            for k1, k2 in itertools.combinations(keys, 2):
                for v1 in meta_values(tier, True):
                    for v2 in meta_values(tier, True):
                        yield dict(common, meta={k1: v1, k2: v2})


def meta_spec(spec, meta):
    base = CALL_BASE if spec['path'] == 'call' else VALUE_BASE
    s = dict(spec)
    s['hostile'] = {'kind': 'json', 'doc': dict(base, meta=meta)}
    return s


_BASELINE = {}


def baseline(spec):
    key = (spec['victim'], spec['path'])
    if key not in _BASELINE:
        _BASELINE[key] = run_h(meta_spec(spec, {}))
    return _BASELINE[key]


def meta_effects(spec, meta):
    w = run_h(meta_spec(spec, meta))
    return w, (judge_h(spec, w) or judge_meta(spec, w, baseline(spec)))


def exec_h(spec):
    """-> (world, [(signature, text)])"""
    if spec.get('cls') == 'meta':
        meta = spec['meta']
        w, effects = meta_effects(spec, meta)
        if not effects:
            return w, []
        label = '+'.join(sorted(meta))
        if len(meta) > 1:
            # a failing pair is attributed to the (first) key that already fails alone with the same value
            for k in sorted(meta):
                w1, eff1 = meta_effects(spec, {k: meta[k]})
                if eff1:
                    label, effects = k, eff1
                    break
        return w, [('hostile-metadata:%s:%s:%s' % (spec['path'], label, eff), '%s packet with meta %r: %s' % (spec['path'], meta, text))
                   for eff, text in effects]
    w = run_h(spec)
    effects = judge_h(spec, w)
    out = []
    for eff, text in effects:
        # which packet class matters for what the packet does to the loop; a stolen or broken honest call does not depend on it
        sig = 'hostile:%s:%s' % (spec['path'], eff) if eff.startswith('honest-') else 'hostile:%s:%s:%s' % (spec['path'], spec['cls'], eff)
        out.append((sig, '%s-path packet %s (victim role %s): %s' % (spec['path'], short(hostile_bytes(spec['hostile']), 120), spec['victim'], text)))
    return w, out


# ---------------------------------------------------------------------------------------------------
# world 'ser': serialisation round trips

SER_ARGS = [[], [1], ['a', None, True, 1.5], [[1, [2]], {'a': {'b': [1]}}], ['é 中 "q"\n'], ['~~~'], [{'value': 1}], [0, '', False, [], {}]]
SER_KWARGS = [{}, {'k': 1}, {'value': 'v', 'name': 'n'}, {'a': [1, {'b': None}], 'z': '~~~'}]
SER_CHANNELS = [[], ['app'], ['a', 'b'], ['*']]
SER_NAMES = ['foo', 'foo_bar', 'x']
SER_VALUES = [None, 0, 1, False, True, '', 's', [], [1, 'a'], {}, {'a': {'b': [1, None]}}, 1.5, 'x~~~y', {'value': 1}, [[], [[]]], 'l\udce9 \U0001f600']


def cases_ser(tier):
    for name in SER_NAMES:
        for a in SER_ARGS:
            for kw in SER_KWARGS:
                for ch in SER_CHANNELS:
                    for fl in FLAGS:
                        for i in (0, 7, 2 ** 40):
                            if tier == 'quick' and name != 'foo' and (i or sum(fl) > 1):
                                continue
                            yield {'w': 'ser', 'kind': 'event', 'name': name, 'a': a, 'kw': kw, 'ch': ch, 'fl': fl, 'id': i}
    for v in SER_VALUES:
        for err in (False, True):
            for i in (0, 7, 2 ** 40):
                for withev in (False, True):
                    yield {'w': 'ser', 'kind': 'value', 'v': v, 'err': err, 'id': i, 'withev': withev}


def exec_ser(spec):
    bad = []
    if spec['kind'] == 'event':
        e = Event.create(spec['name'], *spec['a'], **spec['kw'])
        e.success, e.failure, e.notify = (bool(x) for x in spec['fl'])
        e.channels = tuple(spec['ch'])
        try:
            e2, i2 = nutils.load_event(nutils.dump_event(e, spec['id']))
        except Exception as exc:  # noqa: BLE001
            return None, [('serialisation:event:raises', 'load_event(dump_event(e)) raised %r' % exc)]
        got = {'name': e2.name, 'args': list(e2.args), 'kwargs': e2.kwargs, 'channels': tuple(e2.channels),
               'flags': (e2.success, e2.failure, e2.notify), 'id': i2}
        want = {'name': spec['name'], 'args': spec['a'], 'kwargs': spec['kw'], 'channels': tuple(spec['ch']),
                'flags': tuple(bool(x) for x in spec['fl']), 'id': spec['id']}
        for k in want:
            if got[k] != want[k] or type(got[k]) is not type(want[k]):
                bad.append(('serialisation:event:%s-changed' % k, '%s: sent %r, loaded %r' % (k, want[k], got[k])))
        return got, bad
    e = Event.create('foo', 1) if spec['withev'] else None
    v = Value(e, None)
    v.value = spec['v']
    v.errors = spec['err']
    v.node_call_id = spec['id']
    try:
        val, i2, err, meta = nutils.load_value(nutils.dump_value(v))
    except Exception as exc:  # noqa: BLE001
        return None, [('serialisation:value:raises', 'load_value(dump_value(v)) raised %r' % exc)]
    got = (val, i2, bool(err))
    if val != spec['v'] or type(val) is not type(spec['v']):
        bad.append(('serialisation:value:value-changed', 'sent %r, loaded %r' % (spec['v'], val)))
    if i2 != spec['id']:
        bad.append(('serialisation:value:id-changed', 'sent %r, loaded %r' % (spec['id'], i2)))
    if bool(err) != spec['err']:
        bad.append(('serialisation:value:errors-changed', 'sent %r, loaded %r' % (spec['err'], err)))
    return got, bad


# ---------------------------------------------------------------------------------------------------
# explorer


def all_cases(tier):
    return itertools.chain(cases_rt(tier), cases_hostile(tier), cases_meta(tier), cases_ser(tier))


def execute(spec):
    """-> (observation, [(signature, text)], world or None)"""
    if spec['w'] == 'rt':
        w, bad = run_rt(spec)
        return obs_rt(w), bad, w
    if spec['w'] == 'h':
        w, bad = exec_h(spec)
        return obs_h(w), bad, w
    got, bad = exec_ser(spec)
    return got, bad, None


def nf_facts(spec, w):
    """Vacuity facts of a notify-mix case (names of counters)."""
    facts = []
    kinds = ''.join(nf_kinds(spec))
    li = spec['events'][0]['r'] // 2
    down, up = w.timeline('%dd' % li), w.timeline('%du' % li)
    sent = {p[2]: (n, rnd, p[1]) for n, (rnd, p) in enumerate(down) if p[0] == 'call'}      # name -> (position on the wire, round, id)
    answered = {p[1]: rnd for rnd, p in up if p[0] == 'value'}                                # id -> round
    order = ''.join(kinds[w.names.index(name)] for name in sorted(sent, key=lambda x: sent[x][0]) if name in w.names)
    if re.search('N.*C', order):
        facts.append('rt_cases_notification_written_before_an_awaited_call')
    if order != kinds:
        facts.append('rt_cases_notification_overtook_an_awaited_call')
    # the peer answers a notification too: did that answer arrive while a call written after it was still unanswered?
    for kn in (k for k, x in enumerate(kinds) if x == 'N'):
        for kc in (k for k, x in enumerate(kinds) if x == 'C'):
            n, c = sent.get(w.names[kn]), sent.get(w.names[kc])
            if n and c and n[0] < c[0] and n[2] in answered and c[2] in answered and c[1] <= answered[n[2]] <= answered[c[2]]:
                facts.append('rt_cases_answer_to_a_notification_arrived_while_a_later_call_was_in_flight')
                break
        else:
            continue
        break
    if any(e.get('nr') == 'send_all' and len(nf_destinations(spec, k)) > 1 for k, e in enumerate(spec['events'])):
        facts.append('rt_cases_send_all_to_a_server_with_two_connections')
    return facts


def count(st, spec, w):
    c = st.counters
    if spec['w'] == 'rt':
        c['rt_cases'] += 1
        if spec.get('cuts'):
            c['rt_cases_with_a_cut_that_fell_inside_the_stream'] += 1 if w.cut_hits else 0
        if len(spec['events']) > 1:
            c['rt_cases_several_events_in_flight'] += 1
            order = [x[2] for x in w.log if x[0] == 'res']
            if order and order != sorted(order):
                c['rt_cases_results_returned_out_of_order'] += 1
            if len({e['r'] for e in spec['events']}) > 1:
                c['rt_cases_same_call_id_on_two_connections'] += 1
        if any(x[0] == 'fw' and not x[4] for x in w.log):
            c['rt_cases_firewall_rejected_something'] += 1
        if spec.get('fam') == 'notify-mix':
            c['rt_notify_mix_cases'] += 1
            for name in nf_facts(spec, w):
                c[name] += 1
        if any(sum(len(x) for x in v) > 4096 for v in w.wire.values()):
            c['rt_cases_stream_longer_than_4096'] += 1
        st.transitions += w.rounds
    elif spec['w'] == 'h':
        c['hostile_cases'] += 1
        if any(x[0] == 'run' and x[3] == 1 for x in w.log):
            c['hostile_packets_that_were_dispatched'] += 1
        if any(x[0] == 'res' for x in w.log):
            c['hostile_value_packets_that_resumed_a_sender'] += 1
        st.transitions += w.iterations
    else:
        c['serialisation_cases'] += 1


def trivial(spec):
    if spec['w'] == 'rt':
        return len(spec['events']) == 1 and not spec.get('cuts') and not spec.get('fw') and not spec['events'][0].get('a') \
            and spec['events'][0]['beh'] == ['ret', 'R']
    if spec['w'] == 'ser':
        return not spec.get('a') and not spec.get('kw') and spec.get('v') is None
    return False


def _work(chunk):
    core.quiet_stderr()
    patch()
    st = core.Stats()
    for idx, spec, sampled in chunk:
        obs, bad, w = execute(spec)
        st.executions += 1
        st.outcome(obs)
        if not trivial(spec):
            st.interesting(spec)
        count(st, spec, w)
        if sampled and w is not None:
            st.sample({'case': spec, 'log': [short(x, 200) for x in w.log[:30]]})
        for sig, text in bad:
            st.fail(sig, '%s  [case %s]' % (text, short(spec, 400)), spec)
    return st


def run(tier, seed, workers):
    patch()
    core.quiet_stderr()
    cases = list(all_cases(tier))      # enumerated once (includes the dry runs that measure the byte streams)
    total = len(cases)
    order = core.seeded_order(total, seed)
    rt_idx = [i for i in order if cases[i]['w'] == 'rt' and cases[i].get('cuts')]
    h_idx = [i for i in order if cases[i]['w'] == 'h']
    sampled = set(rt_idx[:1] + h_idx[:1] + rt_idx[len(rt_idx) // 2:len(rt_idx) // 2 + 1])
    items = [(i, cases[i], i in sampled) for i in order]
    st = core.parallel_items(_work, items, workers, chunk=max(1, total // (max(1, workers) * 24)))
    if st.executions != total:
        st.selfcheck_errors.append('enumeration: %d of %d cases executed' % (st.executions, total))
    probes = [{'w': 'rt', 'fam': 'probe', 'events': [ev(0, [1], None, None, None, ['gen', 'G', 1]), ev(5, [2])],
               'cuts': {'0u': ['every', 7]}},
              {'w': 'h', 'victim': 'S', 'path': 'call', 'inflight': None, 'cls': 'meta', 'meta': {'zz': 1}},
              {'w': 'rt', 'fam': 'notify-mix', 'pace': 'ordered', 'cuts': {'0d': ['delim', 0], '0u': ['every', 7]}, 'events': [
                  dict(ev(1, [0], None, None, None, ['gen', 'N0', 2]), nr='send_all'), ev(1, [1], None, None, None, ['ret', 'C1']),
                  dict(ev(1, [2], None, None, None, ['raise', None]), nr='send')]}]
    for p in probes:
        a = execute(p)[0]
        b = execute(p)[0]
        if a != b:
            st.selfcheck_errors.append('determinism: two runs of %s differ' % short(p, 80))
    st.states = len(st.outcomes)
    keys, dunders = meta_keys()
    st.bounds = {'cases': total, 'events_in_flight': 30 if tier != 'thorough' else 120, 'routes': NROUTES, 'argument_shapes': len(ARGS), 'handler_behaviours': len(BEHS),
                 'largest_event_bytes': 70000, 'largest_hostile_packet_bytes': 2 ** 20, 'metadata_keys': len(keys) + len(dunders),
                 'metadata_key_pairs': len(keys) * (len(keys) - 1) // 2, 'dispatcher_attributes_compared': len(DISPATCH_ATTRS),
                 'tick_round_horizon': 60, 'run_iteration_horizon': 40, 'notify_mix_sequence_length': 3,
                 'notify_mix_send_styles': len(NF_STYLES), 'notify_mix_paces': 2, 'notify_mix_segmentations': len(NF_SEGS) + (1 if tier == 'thorough' else 0)}
    for name in ('rt_cases_with_a_cut_that_fell_inside_the_stream', 'rt_cases_several_events_in_flight',
                 'rt_cases_results_returned_out_of_order', 'rt_cases_same_call_id_on_two_connections',
                 'rt_cases_firewall_rejected_something', 'rt_cases_stream_longer_than_4096', 'hostile_packets_that_were_dispatched',
                 'rt_cases_notification_written_before_an_awaited_call', 'rt_cases_notification_overtook_an_awaited_call',
                 'rt_cases_answer_to_a_notification_arrived_while_a_later_call_was_in_flight',
                 'rt_cases_send_all_to_a_server_with_two_connections',
                 'hostile_value_packets_that_resumed_a_sender'):
        if not st.counters[name]:
            st.selfcheck_errors.append('vacuity: counter %s is 0' % name)
    return st


def replay(wit):
    patch()
    obs, bad, w = execute(wit)
    text = 'case %s\n' % json.dumps(wit)
    if w is not None:
        text += 'log:\n  ' + '\n  '.join(short(x, 300) for x in w.log) + '\n'
        if wit['w'] == 'rt':
            for key in sorted(w.wire):
                text += 'wire %s: %s\n' % (key, short(b''.join(w.wire[key]), 300))
        else:
            text += 'run() -> %r, stopped by driver: %r, iterations %d\nwritten: %s\n' % (
                w.result, w.stopped_by_driver, w.iterations, short(w.written(), 400))
    else:
        text += 'loaded: %r\n' % (obs,)
    text += ''.join('VIOLATED %s: %s\n' % b for b in bad) or 'all clauses hold\n'
    return (not bad), text
