#!/usr/bin/env python3
"""Regenerates MANIFEST.json from the table below (kept valid at all times)."""
import json, os
HERE = os.path.dirname(os.path.abspath(__file__))
PY = '/venv/bin/python /verif/run_check.py'
CHECKS = {
 # id: (engine, category, text, note, technique, design_ref)
 'C02': ('E4', 'model_checking',
         'Every program of a finite grammar (3 event types, 1-2 handlers each with distinct priorities, bodies nop/stop/fire-nested, 1-3 external fires with mixed priorities incl. negative and float, one mid-run fire) is executed on a fresh real Manager and the ordering constraints of the statement are evaluated on the ghost dispatch log of every execution. Exhaustive below the stated bounds; no sampling.',
         'Trusted: the oracle (constraints transcribed from the statement), CPython; handlers of one event have distinct priorities; handlers do not call flush().',
         'bounded-exhaustive program enumeration on the real dispatcher (explicit-state, implementation as transition relation)', 'DESIGN.md 6/C02'),
}
CHECKS['C01'] = ('E4+E1', 'model_checking',
    '(a) the full product of forests (<=3 components) x component channels x handler sets (named, channel override, catch-all, global, inherited with/without override, implicit Component method) x (event name, firing component, target channel incl. instances) is fired on fresh real components and judged by the delivery predicate of the statement; (b) explicit-state BFS over register/unregister/addHandler/removeHandler/probe histories (canonical-state dedup) probes every root of every reached state on a fresh replay and compares with a ghost forest and with a cold build. Exhaustive below the bounds.',
    'Trusted: delivery predicate transcribed from the statement; unregister treated as a macro-op (behaviour during a pending unregistration is judged in C07); single target channel per fire.',
    'explicit-state BFS over operation histories of real components + bounded-exhaustive configuration product', 'DESIGN.md 6/C01')
CHECKS['C04'] = ('E4', 'model_checking',
    'Every program of the grammar (1-3 handlers per event with distinct priorities from 12 shapes: return value/None, raise, generators yielding 0-2 values, generators raising at step 0/1; all success/failure/notify/success_channels flag sets; optional nested event fired from a handler) is executed on a fresh real tree driven by tick() to quiescence; the Value, the errors flag, the per-raise exception/failure events, the exactly-once-and-late success event, every handler and a later sentinel event are judged on every execution.',
    'Trusted: oracle transcribed from the statement; result order taken from the ghost log (task stepping order within one tick is whatever the set gives and is observed, not assumed); int results only.',
    'bounded-exhaustive program enumeration on the real dispatcher/task machinery', 'DESIGN.md 6/C04')
CHECKS['C05'] = ('E4', 'model_checking',
    'Every event tree of the grammar (ordered trees, <=5/6 nodes, fan-out <=2, depth <=3; each edge fired by the plain handler or by a later generator step; leaves cancelled right after firing, nodes stopped or raising, also in generator steps; nested complete-requesting descendant; two simultaneous roots) is executed under the real run(); on every execution <name>_complete must be dispatched exactly once per requesting event, after the last handler activity of every non-cancelled member of the ghost causal closure, and within the horizon (quiescence is a state, so never is decidable).',
    'Trusted: ghost causality tree recorded by generated handlers (independent of Event.cause); driver = generate_events handler inside the real run().',
    'bounded-exhaustive event-tree enumeration executed under the real run() loop', 'DESIGN.md 6/C05')
CHECKS['C06'] = ('E4', 'model_checking',
    'Every acyclic caller/callee program over e0..e3 (callers: call by object, wait by name/object, two calls in sequence, call-then-yield, yield-then-call; callees: return, raise, generators yielding/raising before or after the first yield, two handlers, instance-dependent durations) x one or two callers in flight x both task stepping orders x time-outs {0,1,3} against callees lasting 0-4 loop iterations runs under the real run(). Every suspension must be resumed exactly once, after the callee finished, with the callee own result and error flag (or TimeoutError not before the given number of iterations); the caller event gets value/success/complete once; handler tables and task set at quiescence equal their initial contents; a quiescent state with a suspended caller is a deadlock verdict.',
    'Trusted: ghost log; task order owned through an ordered drop-in for Manager._tasks (both orders enumerated); acyclic call structure.',
    'bounded-exhaustive program enumeration under the real run(), task order as enumerated schedule', 'DESIGN.md 6/C06')
CHECKS['C03'] = ('E2', 'model_checking',
    'Stateless CHESS-style exploration of real threads: the loop thread runs the real Manager.run(), firing threads call fire(); every interleaving at source-line granularity of the dispatch / generate_events hand-shake / idle-wait / wake-up functions plus every lock, event and select/poll/epoll operation is executed with <=k pre-emptions (quick: fallback k<=2, each poller k<=1, two firing threads k<=1; thorough: one more everywhere) for the fallback idle wait and for Select, Poll and EPoll. Timed waits never expire, so a loop that needs a timeout to notice an event ends in the terminal state loop-blocked + undispatched event = LOST WAKE-UP; every execution is also judged for exactly-once, per-thread-ordered dispatch.',
    'Trusted: CPython line atomicity for the monitored functions (sub-line races not explored), the lock/event/select doubles, sys.monitoring LINE delivery; the randomised tail of the quantifier is not done (sampling is another family).',
    'pre-emption-bounded exhaustive schedule exploration of the real threads under a controlled scheduler (stateless model checking)', 'DESIGN.md 3/E2, 6/C03')
CHECKS['C08'] = ('E4+E2', 'model_checking',
    'Part 1: every program (chain started->c1..cL, L<=3; stop action in any handler; 9 stop actions: stop() with/without codes, SystemExit with/without codes, KeyboardInterrupt; next link fired before/after the action; one link optionally fired from a generator step; extra events around the action) runs under the real run() twice on the same manager, with stop() on the stopped manager (also with an event queued) in between; per cycle exactly one started/stopped, everything fired is dispatched and no queue residue when run() ends, the code reaches the caller of run(). Part 2 (E2): stop()/stop(3) issued by a second thread, every interleaving with <=k pre-emptions (quick k<=1, one config k<=2; thorough k<=2/3): run() ends, stopped dispatched exactly once, nothing fired is left, code propagates.',
    'Trusted: as for C03 (line atomicity, doubles); any exit code other than None must reach the caller of run() as SystemExit(code); every program runs twice: with a driver that asks for zero idle time and with the idle time decided by the library over an idle-wait double.',
    'bounded-exhaustive program enumeration under the real run() + pre-emption-bounded schedule exploration for the threaded stop', 'DESIGN.md 6/C08')
CHECKS['C07'] = ('E1', 'model_checking',
    'Explicit-state BFS over histories of register / unregister / probe fire / broadcast fire / single ticks of any root on pools of 3-4 real components, started from several initial forests (flat, chain of 2, chain of 3, chain of 4); canonical state = forest + pending flags + per-root queue contents + handler caches. After every operation: parent/child links agree, no cycles, root = top of tree; after a final drain: one registered/unregistered event object per completed operation and never twice to one component, probes queued on a detached component are delivered exactly once after it is registered, no probe is delivered twice, and nothing reaches a component that was not in the firing tree between fire and dispatch (detached subtrees receive nothing further).',
    'Trusted: preconditions read from the real object graph at operation boundaries; eventual completion of every requested unregistration is not judged (statement does not promise it) - counted in evidence.',
    'explicit-state BFS over operation histories of real component trees with canonical-state dedup', 'DESIGN.md 6/C07')
CHECKS['C09'] = ('E3', 'model_checking',
    'Real Timer components (1-3 per program; intervals {0, 1/2, 1, 5/2}; persistent or one-shot; float or absolute datetime deadline; created at virtual time 0 or 1/2; optional reset()/unregister() at grid times; optional event chain and generator task in the background) run under the real run() on a virtual clock. Every environment script with <=k deviations (each idle wait: as requested / 1/8 late / half = spurious early wake; each loop iteration: cost 0 / 1/8) is executed; on every execution: no firing before start+interval (whole-second deadline for datetimes), one-shots fire once and remove themselves, persistent firings are >= interval apart and stop after unregistration, reset() restarts, no idle wait is requested past the earliest pending expiry, and a timer that is due when its loop iteration starts fires in that iteration.',
    'Trusted: virtual clock, virtual wait and virtual select-module doubles (module globals time / helpers.Event / pollers.select, TIMEOUT patched to 1/8 for exact arithmetic); the instance-level spy on Timer.fire; pollers are exercised with single-timer programs only.',
    'deviation-bounded exhaustive enumeration of environment answers on a virtual clock, real run() and real Timer', 'DESIGN.md 3/E3, 6/C09')
CHECKS['C10'] = ('E1', 'model_checking',
    'Explicit-state BFS over histories of addReader/addWriter/removeReader/removeWriter/discard and peer actions (write, drain, fill the send buffer, unfill, peer close, discard+close+reopen on the same fd number, close-without-discard + reopen + register, close-without-discard with the number taken by an unrelated descriptor) on 1-2 real AF_UNIX socket pairs; every history is replayed on fresh sockets under Select, Poll and EPoll, two zero-time-out loop iterations after each operation. Judged on every state: an event only for a descriptor registered for that role and ready for it, a ready registered descriptor gets exactly one event per iteration, on the channel of the registering component, nothing ever names a discarded/closed socket object, and the three pollers fire the same event set.',
    'Trusted: Linux AF_UNIX readiness measured with select/poll by the harness; set model of registrations; events for hung-up descriptors judged for naming registered live objects, for re-registration, and - while unread data is pending - for staying readable without _disconnect.',
    'explicit-state BFS over operation histories on real sockets, cross-checked between the three poller implementations', 'DESIGN.md 6/C10')
CHECKS['C11'] = ('E3', 'fault_enumeration',
    'Real TCPServer connection, UNIXClient, TCPClient and File components on a real poller, with the OS write call scripted: every send()/os.write() is a choice point {accept all, 1 byte, n-1 bytes, EAGAIN, EINTR, ENOBUFS, EPIPE, ECONNRESET}; for every program (1-3 write events with payloads of 0/1/3 distinct bytes, close request at any position or none, all events at once or one per loop iteration) every answer script with <=k non-default answers (quick 2, thorough 3; fatal answers sticky) is executed. On every execution: the accepted bytes are always a prefix of the payload concatenation, at quiescence nothing written before the close request (or nothing at all) is missing, close/shutdown happens only after that and only if requested, no write call after close, a fatal answer is signalled by an error/disconnect event.',
    'Trusted: scripted socket/file doubles (subclasses around real descriptors passed through public constructors); EAGAIN==EWOULDBLOCK on Linux; ENOBUFS not offered to File; multi-megabyte payloads are not in the alphabet.',
    'deviation-bounded exhaustive fault enumeration of send() outcomes against the real endpoint components', 'DESIGN.md 3/E3, 6/C11')
CHECKS['C12'] = ('E1', 'model_checking',
    'Explicit-state BFS over histories of peer actions (connect, send 1/5/5124 bytes, shutdown(WR), close, close with unread data) and server-side actions (write, 1 MiB write while the peer does not read, close, and late write/close after the disconnect) on up to two concurrent connections to a real UNIXServer, replayed on fresh sockets under Select, Poll and EPoll with deterministic zero-time-out loop iterations; plus client histories for a real UNIXClient against a harness-driven listener. Judged on every state: per socket the observer stream is connect, read*, disconnect with nothing afterwards; read data equals (or, if the server closed, is a prefix of) what the peer sent; every ended connection gets its disconnect; after the disconnect neither the server (_clients/_buffers/_closeq) nor the poller (_read/_write/_targets/_map) retains the socket; no handler raises; the three pollers show the same streams; one disconnected per connected on the client.',
    'Trusted: AF_UNIX semantics (synchronous peer effects) in the main family; in the TCP family (RST via SO_LINGER 0) every kernel effect is awaited explicitly before the loop is stepped; residue clause reads internal tables through getattr.',
    'explicit-state BFS over connection histories on real sockets under three pollers', 'DESIGN.md 6/C12')
CHECKS['C20'] = ('E4', 'model_checking',
    'Three bounded-exhaustive families on fresh real objects: (auth) every configuration (user tables incl. users with guessable derived passwords, dict/callable tables, realms, methods, encrypt kinds) x every Authorization header of a grammar covering Basic and Digest (users absent from the table, right/wrong/None/empty passwords, realm and method mismatches, qop/nc/cnonce/algorithm variants, every subset of required Digest fields missing, bad base64, no space, unknown scheme) through check_auth, basic_auth and digest_auth, judged by a three-valued reference verifier built on an independent RFC 2617 implementation; (sess) every sequence of 2-3 requests over 8 clients x 9 cookie kinds through a real Sessions component with scripted uuid4, judged by a reference store keyed by (sid, client); (vhost) every trusted-gateway list x remote address x X-Forwarded-Host x Host x path through a real VirtualHosts, differential oracle.',
    'Trusted: the independent RFC 2617 reference; an exception escaping the auth functions counts as refusal; completeness judged for canonical spellings only; nonce/uri validation not judged.',
    'bounded-exhaustive input/configuration enumeration against reference verifiers', 'DESIGN.md 6/C20')
CHECKS['C16'] = ('E4', 'model_checking',
    'Bounded-exhaustive enumeration on a fixture tree in a temp dir (secret in the parent, sibling whose name extends the docroot name): every path of 0-3 (quick) / 0-4 (thorough) segments over a 17-segment alphabet (.., ., empty, %2e%2e, %252e%252e, ..%2f, %2e%2e%2f, backslash forms, encoded absolute path, benign names) x mount (none, /, /static, /static glued to the first segment) x dirlisting x three front ends (request bytes through HTTP, request event with Request.path set, WSGI Application + Static); reference = unquote once, normpath, containment; the answer must be 3xx/4xx or exactly the denoted file/index/listing, no marker from outside may appear, and an audit hook sees no open/listdir outside the docroot. Ranges: every header unit{bytes, items, no =} x one or two specs over {empty, 0,1,5,9,10,11,100,x,-1} x file sizes {0,1,10,100}, judged by an RFC 7233 reference (206 exact bytes + Content-Range, 416, or 200; never 5xx, never bytes beyond the file).',
    'Trusted: in-memory model of the fixture; any 3xx/4xx counts as refusal; stat()/exists() outside the root are counted, not judged; symlinks and non-POSIX semantics not covered.',
    'bounded-exhaustive input/configuration enumeration through the real HTTP/dispatcher/WSGI front ends with a reference model', 'DESIGN.md 6/C16')
CHECKS['C17'] = ('E4', 'model_checking',
    'A real WebSocketCodec (server and client role, also with initial data handed to the constructor) under a real parent component is fed read events; reference = an independent strict RFC 6455 encoder/decoder in the check (self-tested against the RFC examples). Enumerated exhaustively: payload lengths {0,1,125,126,127,65535,65536,70000} text/binary x four masking keys x every single cut in the first 16 bytes and around the payload end, every pair of cuts in the header region, fixed-size chunkings, byte-at-a-time; every split of a message into 1-3 continuation frames incl. inside a UTF-8 character, with ping/pong (0,5,125 bytes) before/between/after fragments; every sequence of 1-3 items from data messages, fragmented messages, ping, pong, close, local write, local close; outgoing writes of every length decoded by the reference. Judged: type, payload and order of every message, one pong per ping with the same payload, nothing delivered or sent after close, no exception events.',
    'Trusted: the reference codec; peers are role-conforming; closing-handshake details (reply close frame, its masking) are observed, not judged.',
    'bounded-exhaustive input/segmentation enumeration against an independent reference codec', 'DESIGN.md 6/C17')
CHECKS['C18'] = ('E4', 'model_checking',
    'Line protocol: every byte stream of <=5 (quick) / <=6 (thorough) tokens over {a, e-acute (2 bytes), CR, LF, CRLF} x every composition into reads (all 2^(n-1) for short streams, all with <=2/3 cuts plus byte-at-a-time for longer ones), in client mode and in server mode with two sockets and every interleaving of their segment sequences; after every read the emitted line events must equal a byte-scanning reference applied to the bytes of that socket so far, the tail is held and never crosses sockets. IRC: Message(cmd, *args, prefix) and all 17 command constructors applied to every argument tuple (arity <=4) over {x, empty, space, x y, :x, x:y, CR, a CR b, LF, a LF b, NUL, e-acute}, commands and prefixes from the same alphabet, str and bytes; each call must raise the module Error/ValueError or serialise to exactly one CRLF-terminated line without other CR/LF that parsemsg/from_string parse back to the same prefix, command and arguments; plus the full pipeline constructor -> IRC component -> wire -> second IRC component under every single cut.',
    'Trusted: reference line splitter and the round-trip oracle; whitespace other than space inside non-trailing arguments is outside the alphabet.',
    'bounded-exhaustive input/segmentation enumeration against a reference model and a round-trip oracle', 'DESIGN.md 6/C18')
CHECKS['C19'] = ('E4', 'model_checking',
    'The real Node / Client / Server / Protocol / utils stack runs on a scripted transport (the TCP components are replaced by recorders; the harness delivers the recorded bytes to the other side cut exactly as the enumerated segmentation says). Round trips (4 trees, 6 routes): 1-3 events in flight over every route combination, results returned in every order, 14 argument shapes incl. 5 000 / 10 000 / 70 000 B and delimiter or "value": inside strings, 17 receiving handler behaviours, all feedback flag sets, firewalls on both sides, every single cut / byte-at-a-time / fixed chunkings / cuts around the delimiter and every 4096 boundary: the receiving handler runs exactly once, the sender generator gets its value and error flag, rejected events are neither written nor dispatched. Hostile peer under the real run(): truncation at every offset, non-object / partial JSON, wrong types for every key, oversized and deeply nested packets, every metadata key (33, from dir(Event()) and the attributes the dispatcher reads) singly and in pairs, differential against empty meta: the loop keeps running, a sentinel and the honest peer are served. Serialisation round trip of events and values.',
    'Trusted: scripted transport in place of TCP components; class-level registries of Node/Server are reset per case; cost of oversized packets not judged.',
    'bounded-exhaustive input/segmentation/fault enumeration through the real node stack, real run() for liveness', 'DESIGN.md 6/C19')
CHECKS['C13'] = ('E4', 'model_checking',
    'Differential, exhaustive over a message grammar x cut sets: 112 well-formed requests (methods, targets with query, HTTP/1.0 and 1.1, header sets incl. folded continuation lines and Connection wishes, bodies: none, Content-Length 0/5, chunked with 1-2 chunks, chunk extension, trailer), alone and as two keep-alive requests (second after the first response), are delivered to the real HTTP server component under a stub server with every single cut, pairs of cuts (quick: within 3 bytes around structural boundaries; thorough: all pairs for messages up to 90 bytes) and byte-at-a-time; the request events (method, path, query string, protocol, headers, body) and the response bytes (modulo Date) must equal those of one-piece delivery. Same for 8 response shapes (200/204/304/404; Content-Length, chunked, until-close; sequences of two) through the real HTTP client component.',
    'Trusted: the one-piece delivery as reference (differential oracle); an echoing request handler makes the response depend on everything parsed; no pipelining.',
    'bounded-exhaustive input/segmentation enumeration with a differential oracle', 'DESIGN.md 6/C13')
CHECKS['C14'] = ('E4', 'model_checking',
    'Every single mutation (45 operators: request line parts, method case/length, version tokens, fragment, absolute URI, header lines without colon / with control characters / empty names / 64 KiB values / folding, duplicate or missing Host, Content-Length abc / -1 / 1e3 / +5 / conflicting / 2**64 / empty, chunk sizes zz / -1 / empty, unicode_escape traps in first line and headers, NUL, non-ASCII, TLS and SSLv2 hellos, binary noise; thorough: every pair of operators on distinct fields) of 4 seed requests is delivered to the real HTTP component whole and truncated at every offset, followed by a disconnect. On every input: the written bytes parse (status line by RFC 7230 grammar, rest by http.client) as at most one well-formed, self-delimiting response, 4xx/5xx for malformed-for-sure inputs, close event iff the response announces it, nothing written after close, no request event for a rejected message, no exception escapes the loop and a sentinel event is still dispatched, no parser/request state for the socket after the disconnect.',
    'Trusted: the independent response parser; waiting for more data is accepted for every input (as the statement allows); the echo handler never fails.',
    'bounded-exhaustive mutation/truncation enumeration with an independent response parser', 'DESIGN.md 6/C14')
CHECKS['C15'] = ('E4', 'model_checking',
    'The full product of handler result kinds (str, bytes, list, list with None, coroutine handler, streamed generators of str/bytes incl. empty items first/middle/last and many chunks, file object, streamed plain iterator, non-streamed generator/tuple) x sizes (0, small with multi-byte characters, 70 KiB) x status (200, 201, 204, 304, 404 via notfound(), 500 via raise) x HTTP/1.0|1.1 x Connection (absent, keep-alive, close) x GET|HEAD, each alone and in sequences of 2 (thorough: 3) requests on one connection, runs through the real HTTP component. Each response is decoded from exactly the bytes written for it by http.client.HTTPResponse: status and body equal what the application produced, no trailing bytes, no chunked encoding for a 1.0 client, HEAD/204/304 carry no body, a close event follows iff the response announces it (or is delimited by close), the client close wish is honoured, nothing is written after the close, and the next request on a kept-alive connection is answered correctly.',
    'Trusted: http.client as independent decoder; for 404/500 only status, framing and closing are judged; 204/304 only with an empty application body.',
    'bounded-exhaustive configuration product decoded by an independent HTTP client implementation', 'DESIGN.md 6/C15')
NOT_YET = {}
# later additions to the grammars and oracles (DESIGN.md 10.6); appended to the level text of each check
ADDED = {
 'C01': 'multi-name handlers, a run-time handler in three variants (sole / shared name buckets, re-added after removal), three-level inheritance, fire without flush across structural changes with an exact oracle',
 'C02': 'multi-channel fires, stop() with a returned generator, re-firing the event object being handled, batches of 129-5000 events queued before one pass, API defaults left out',
 'C03': 'the timed fall-back wait, two managers in one process, a descriptor closed behind Select, *_ctrl configurations (expirable 1/8 s wait as an environment choice, scheduling points focused on the control-pipe protocol, 3 deviations, symmetry reduction)',
 'C04': 'zero handlers, nested Values, the event fired twice (sequentially / concurrently), falsy results, BaseException that is no Exception, arguments of the feedback events, two independent managers under all tick interleavings of length 6',
 'C05': 'handler-less leaves, call/post edges, a raising side handler, the root fired again after its tree drained, fan-out / chains up to 300 (1000) events, idle time decided by the library (an unbounded idle wait with work pending = never)',
 'C06': 'per-instance durations and time-outs, waiters on the same event, falsy results, 12-150 callers in flight, call / wait-by-name mixes with a by-name oracle, idle time decided by the library',
 'C07': 'handler caches in the canonical state, (component, parent) named by every announcement, instance-addressed probes, delivery-after-detach clause over a ghost forest replayed on the log, forests of 16 (60)',
 'C08': 'stray stop(code) while stopped, work started during fade-out incl. chains of 12 events from a generator stopped handler, stop() on a registered child, every program also with the idle time decided by the library, started/stopped arguments',
 'C09': 'Select/Poll/EPoll as idle mechanism, no firing after unregister(), busy-handler clock choice before reset(), default persist, intervals and distances of 1/256 s',
 'C10': 'fd number taken over by an unrelated descriptor, hung-up re-registration, hung-up descriptor with unread data, 40 (400) descriptors at once',
 'C11': 'text payloads for File, 3 MiB payload, residue-after-close clause, server-wide close with buffered data',
 'C12': 'TCP family with RST before / after accept, server-wide close, send+close and send+half-close with exact buffer multiples, 24 (200) connections at once, stray-poller-entry clause, connect arguments',
 'C13': 'Content-Length: 0 responses, two interleaved connections to one HTTP component',
 'C14': 'two-read deliveries (settled and next-pass) also after the close request, ladders of malformed over-long inputs with a CPU-time stall clause, non-ASCII / surrogate / cookie values, traceback pages on, UNIX-socket server, client gone at once, exception-unanswered clause, event-storm guard',
 'C15': 'short-read files, non-streamed iterables, statuses 302/303/403, Controller method behind the Dispatcher as second entry point',
 'C16': 'a 20000-byte file, two requests on one keep-alive connection',
 'C18': 'arguments ending in CR/LF, white space at either end, tabs, every shape of prefix',
 'C19': 'notification / call mixes, firewall x payload shapes, 30 (120) events in flight, lone surrogates',
 'C20': 'requests without Host header, a second check on the same request object, session requests sharing one connection',
}

def main():
    props = [json.loads(l) for l in open(os.path.join(HERE, 'properties.jsonl'))]
    checks = []
    na = []
    for p in props:
        pid = p['id']
        if pid in CHECKS:
            eng, cat, text, note, tech, ref = CHECKS[pid]
            if pid in ADDED:
                text += ' Added later (DESIGN.md 10.6; bounds in brackets are the thorough tier): ' + ADDED[pid] + '.'
                ref += ', 10.6'
            checks.append({
                'property_id': pid,
                'quick_cmd': '%s %s --tier quick' % (PY, pid),
                'thorough_cmd': '%s %s --tier thorough' % (PY, pid),
                'evidence_file': '/verif/evidence/%s.json' % pid,
                'replay_cmd_template': '%s %s --replay {path}' % (PY, pid),
                'engine': eng,
                'level_claimed': {'category': cat, 'text': text, 'design_ref': ref},
                'level_note': note,
                'technique': tech,
            })
        else:
            na.append({'property_id': pid, 'reason': NOT_YET.get(pid, 'check not built yet in this session (planned, see DESIGN.md section 6); not claimed until its check exists and is silent on the unchanged tree')})
    hooks = json.load(open(os.path.join(HERE, 'hooks.json')))
    man = {
        'version': 1,
        'setup_cmd': 'true',
        'hooks': hooks,
        'engines': [
            {'name': 'E1', 'path': '/verif/mc/e1_history.py', 'serves_properties': ['C01', 'C07', 'C10', 'C12'], 'kind_free_text': 'explicit-state BFS over operation histories, real objects rebuilt by replay, canonical-state dedup'},
            {'name': 'E2', 'path': '/verif/mc/e2_threads.py', 'serves_properties': ['C03', 'C08'], 'kind_free_text': 'stateless pre-emption-bounded schedule exploration of real threads (sys.monitoring LINE points + lock/event/select doubles)'},
            {'name': 'E3', 'path': '/verif/mc/e3_deviation.py', 'serves_properties': ['C09', 'C11'], 'kind_free_text': 'deviation-bounded enumeration of environment answers (send() outcomes, idle-wait lengths)'},
            {'name': 'E4', 'path': '/verif/mc/core.py', 'serves_properties': ['C02', 'C04', 'C05', 'C06', 'C13', 'C14', 'C15', 'C16', 'C17', 'C18', 'C19', 'C20'], 'kind_free_text': 'bounded-exhaustive program / input / segmentation enumeration executed on the real code, partitioned over 16 workers'},
        ],
        'checks': checks,
        'not_applicable': na,
        'notes': 'All checks import circuits from /repo\'s working tree (nothing is built or cached). Known findings: /verif/known_findings.txt. See DESIGN.md.',
    }
    json.dump(man, open(os.path.join(HERE, 'MANIFEST.json'), 'w'), indent=1)
    print('checks:', [c['property_id'] for c in checks], 'n/a:', len(na))
main()
