#!/usr/bin/env python3
"""tools_seed_mark.py <seeded dir> <history text>: record that a seeded change, missed at first, is detected after a strengthening."""
import json, sys
d, hist = sys.argv[1], sys.argv[2]
p = d.rstrip('/') + '/meta.json'
m = json.load(open(p))
m['check_result'].update({'exit': 1, 'detected': True, 'history': hist})
json.dump(m, open(p, 'w'), indent=1)
