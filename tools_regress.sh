#!/bin/bash
# usage: tools_regress.sh [ID-regex]   re-runs every stored seeded change and hand-made mutant (quick tier) against the current
# checks, each in its own scratch worktree; prints one line per patch and a summary. Nothing in /repo or evidence/ is touched.
pat=${1:-.}
out=/tmp/regress_$$.txt; : > $out
list=$( (ls /verif/seeded/*/patch.diff; ls /verif/mutants/C*/*.diff | grep -v thorough_only) | grep -E "$pat")
one() {
  f=$1
  id=$(echo "$f" | sed -E 's#.*/(seeded|mutants)/(C[0-9]+).*#\2#')
  res=$(timeout 1500 /verif/tools_mutant.sh "$f" "$id" 2>&1 | tail -1)
  echo "$res $id $f"
}
export -f one
echo "$list" | xargs -P 2 -I{} bash -c 'one {}' | tee $out
echo "---- not detected:"; grep -v "^exit=1 " $out
echo "total $(wc -l < $out), detected $(grep -c '^exit=1 ' $out)"
rm -f $out
