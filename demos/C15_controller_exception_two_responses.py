import socket, threading, time, re
from circuits.web import Server, Controller
from circuits.web.exceptions import Redirect
class Root(Controller):
    def index(self): return 'hi'
    def go(self): raise Redirect('/')
    def go2(self): return self.redirect('/')
    def boom(self): raise RuntimeError('x')
    def forbid(self):
        from circuits.web.exceptions import Forbidden
        raise Forbidden()
srv = Server(('127.0.0.1', 0)) + Root()
t = threading.Thread(target=srv.run, daemon=True); t.start()
time.sleep(0.5)
def probe(path):
    s = socket.create_connection(('127.0.0.1', srv.port)); s.settimeout(1.5)
    s.sendall(b'GET %s HTTP/1.1\r\nHost: x\r\n\r\n' % path)
    data = b''
    try:
        while True:
            d = s.recv(65536)
            if not d: break
            data += d
    except socket.timeout:
        pass
    s.close()
    return data
for path in (b'/go', b'/go2', b'/boom', b'/forbid'):
    data = probe(path)
    print(path, [m.decode() for m in re.findall(rb'HTTP/\d\.\d \d{3}', data)], len(data))
srv.stop()
