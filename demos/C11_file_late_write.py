"""A write addressed to a File that has already closed must not be kept: it would be written to whatever the File opens next."""
import os, sys, tempfile
from circuits import Component, handler
from circuits.io import File
from circuits.io.events import close, write
from circuits.io.file import _open as open_ev

d = tempfile.mkdtemp()
p1, p2 = os.path.join(d, 'one.txt'), os.path.join(d, 'two.txt')

class App(Component):
    pass

app = App()
f = File(p1, 'w').register(app)
import threading
from circuits.core.events import generate_events
LOCK = threading.RLock()
def settle():
    for _ in range(8):
        app.fire(generate_events(LOCK, 0), '*')
        for _ in range(6):
            app.flush()
settle()
app.fire(write(b'first;'), f.channel); settle()
app.fire(close(), f.channel); settle()
app.fire(write(b'LATE;'), f.channel); settle()          # the file is closed: nobody to write to
held = sum(len(x) for x in f._buffer)
poller = f._poller
watched = [x for x in getattr(poller, '_write', []) if getattr(x, 'closed', False)]
app.fire(open_ev(p2, 'w'), f.channel); settle()
app.fire(write(b'second;'), f.channel); settle()
app.fire(close(), f.channel); settle()
one, two = open(p1).read(), open(p2).read()
print('one.txt=%r two.txt=%r; bytes held after the late write: %d; closed files watched by the poller: %d' % (one, two, held, len(watched)))
ok = (one == 'first;' and two == 'second;' and held == 0 and not watched)
print('PASS' if ok else 'FAIL')
sys.exit(0 if ok else 1)
