"""Events of equal priority are dispatched in the order they were fired - also when some of them were fired on a component
that was its own root before and is registered with the dispatching root afterwards."""
import sys
from circuits import Component, Event, handler

class ping(Event): pass

log = []
class Rec(Component):
    @handler('ping', channel='*')
    def _on_ping(self, n):
        log.append(n)

def scenario(own_use, root_use):
    del log[:]
    root = Rec()
    comp = Component(channel='c')
    for i in range(own_use):                 # the component lives on its own for a while
        comp.fire(ping(-1)); comp.flush()
    for i in range(root_use):
        root.fire(ping(-2)); root.flush()
    del log[:]
    order = []
    comp.fire(ping(1), '*'); order.append(1)          # fired first (while detached)
    comp.fire(ping(2), '*'); order.append(2)
    comp.register(root)                                # its queue is adopted by the root
    root.fire(ping(3), '*'); order.append(3)          # fired later, on the root
    root.fire(ping(4), '*'); order.append(4)
    for _ in range(4):
        root.flush()
    return [x for x in log if x > 0], order

ok = True
for own_use, root_use in ((0, 0), (0, 5), (5, 0), (3, 3), (7, 2)):
    got, want = scenario(own_use, root_use)
    print('component used %d times on its own, root %d times: dispatched %r, fired %r %s' % (own_use, root_use, got, want, '' if got == want else '<-- order broken'))
    ok = ok and got == want
print('PASS' if ok else 'FAIL')
sys.exit(0 if ok else 1)
