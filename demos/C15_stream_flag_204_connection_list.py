"""Real server, real sockets: three defects of the pinned tree behind C15 (repaired by repo 78a4ed2, 0b2d4f3, 34fd9b1).

  1. response.stream = True with a str body: headers of a 200, then a 500 (two responses); with an empty body the next request
     on the connection is answered with a copy of the old (empty) response.
  2. response.status = 204 / 304 with a body left there: the body is written behind the headers.
  3. 'Connection: TE, close': the connection stays open.
exit 1 if any of them shows, 0 otherwise.   usage: PYTHONPATH=<tree> python C15_stream_flag_204_connection_list.py
"""
import socket
import sys
import threading
import time

from circuits.web import Controller, Server


class Root(Controller):
    def index(self):
        self.response.status = 204
        return 'hello'

    def nm(self):
        self.response.status = 304
        return 'hello'

    def s1(self):
        self.response.stream = True
        return 'hello'

    def s2(self):
        self.response.stream = True
        return ''

    def ok(self):
        return 'OK'


srv = Server(('127.0.0.1', 0))
Root().register(srv)
threading.Thread(target=srv.run, daemon=True).start()
time.sleep(0.5)


def talk(paths, extra=''):
    s = socket.create_connection(('127.0.0.1', srv.port))
    s.settimeout(1)
    for p in paths:
        s.sendall(('GET %s HTTP/1.1\r\nHost: x\r\n%s\r\n' % (p, extra)).encode())
        time.sleep(0.3)
    out = b''
    try:
        while True:
            d = s.recv(65536)
            if not d:
                out += b'<EOF>'
                break
            out += d
    except socket.timeout:
        out += b'<open>'
    return out


bad = 0
for what, paths, extra, ok in (
        ('204 with a body left by the handler', ['/'], '', lambda o: o.endswith(b'\r\n\r\n<open>')),
        ('304 with a body left by the handler', ['/nm'], '', lambda o: o.endswith(b'\r\n\r\n<open>')),
        ('stream=True, str body', ['/s1'], '', lambda o: o.count(b'HTTP/1.1 ') == 1 and o.endswith(b'hello<open>')),
        ('stream=True, empty body, then a second request', ['/s2', '/ok'], '', lambda o: o.endswith(b'OK<open>')),
        ('Connection: TE, close', ['/ok'], 'Connection: TE, close\r\n', lambda o: o.endswith(b'OK<EOF>'))):
    o = talk(paths, extra)
    good = ok(o)
    bad += not good
    print('%-50s %s   %r' % (what, 'ok  ' if good else 'FAIL', o[:40] + b' ... ' + o[-60:]))
srv.stop()
sys.exit(1 if bad else 0)
