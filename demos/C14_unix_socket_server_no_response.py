import os, socket, sys, tempfile, threading, time, re
from circuits.web import Controller, Server
class Root(Controller):
    def index(self): return 'hi'
path = os.path.join(tempfile.mkdtemp(), 'web.sock')
srv = Server(path) + Root()
threading.Thread(target=srv.run, daemon=True).start()
time.sleep(0.5)
def ask(payload):
    s = socket.socket(socket.AF_UNIX); s.connect(path); s.settimeout(2)
    s.sendall(payload)
    data = b''
    try:
        while True:
            d = s.recv(65536)
            if not d: break
            data += d
    except socket.timeout:
        data += b'<TIMEOUT>'
    s.close()
    return data[:45]
res = {}
for name, p in (('ok', b'GET / HTTP/1.1\r\nHost: x\r\n\r\n'), ('bad-line', b'GET / HTTP/1.1 extra\r\nHost: x\r\n\r\n'), ('no-host', b'GET / HTTP/1.1\r\n\r\n'), ('bad-clen', b'POST / HTTP/1.1\r\nHost: x\r\nContent-Length: abc\r\n\r\n'), ('http10-no-host', b'GET / HTTP/1.0\r\n\r\n')):
    res[name] = ask(p); print(name, res[name])
