import socket, threading, time, sys, re
from circuits.web import Server, Controller
class Root(Controller):
    def index(self): return 'hi'
srv = Server(('127.0.0.1', 0)) + Root()
t = threading.Thread(target=srv.run, daemon=True); t.start()
time.sleep(0.5)
port = srv.port
def probe(payload):
    s = socket.create_connection(('127.0.0.1', port)); s.settimeout(2)
    s.sendall(payload)
    data = b''
    try:
        while True:
            d = s.recv(65536)
            if not d: break
            data += d
    except (socket.timeout, ConnectionResetError):
        pass
    s.close()
    return data
for name, payload in (('505+20KB', b'GET / HTTP/2.0\r\nHost: x\r\n\r\n' + b'A' * 20000),
                      ('bad-header+20KB', b'POST / HTTP/1.1\r\nHost: x\r\nContent-Length: abc\r\n\r\n' + b'A' * 20000),
                      ('505 alone', b'GET / HTTP/2.0\r\nHost: x\r\n\r\n')):
    data = probe(payload)
    n = len(re.findall(rb'HTTP/\d\.\d \d{3} ', data))
    print(name, 'responses:', n, [m.decode() for m in re.findall(rb'HTTP/\d\.\d \d{3}', data)])
srv.stop()
