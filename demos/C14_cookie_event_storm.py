"""One valid request with a cookie value outside latin-1 (written as an escape the parser decodes) must not take the server down."""
import socket, sys, threading, time
from circuits.web import Controller, Server

class Root(Controller):
    def index(self):
        return 'hi'

srv = Server(('127.0.0.1', 0)) + Root()
threading.Thread(target=srv.run, daemon=True).start()
time.sleep(0.5)

def ask(extra=b''):
    s = socket.create_connection(('127.0.0.1', srv.port)); s.settimeout(3)
    s.sendall(b'GET / HTTP/1.1\r\nHost: x\r\nConnection: close\r\n' + extra + b'\r\n')
    data = b''
    try:
        while True:
            d = s.recv(65536)
            if not d:
                break
            data += d
    except socket.timeout:
        data += b'<TIMEOUT>'
    s.close()
    return data[:40]

a = ask(b'Cookie: a="\\u20ac"\r\n')
b = ask()
print('with the cookie:', a)
print('ordinary request afterwards:', b)
ok = a.startswith(b'HTTP/1.1 ') and b.startswith(b'HTTP/1.1 200')
print('PASS' if ok else 'FAIL')
sys.exit(0 if ok else 1)
