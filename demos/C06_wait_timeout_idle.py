"""wait(name, timeout=N) in an otherwise idle application: the TimeoutError must arrive after N loop iterations."""
import sys, threading, time
from circuits import Component, Event, handler
from circuits.core import TimeoutError

class go(Event): pass

class App(Component):
    got = None
    @handler('go')
    def _on_go(self):
        try:
            yield self.wait('never', timeout=3)
            App.got = 'resumed without error'
        except TimeoutError:
            App.got = 'TimeoutError'
        self.stop()

app = App()
app.fire(go())
t = threading.Thread(target=app.run, daemon=True)
t0 = time.time()
t.start()
t.join(5.0)
print('after %.1f s: handler outcome = %r, loop thread alive = %r' % (time.time() - t0, App.got, t.is_alive()))
sys.exit(0 if App.got == 'TimeoutError' else 1)
