#!/venv/bin/python
"""Entry point of every registered check.

    /venv/bin/python /verif/run_check.py <id> --tier quick|thorough
    /venv/bin/python /verif/run_check.py <id> --replay <file>

exit 0: the property held on everything explored (KNOWN-FINDING lines allowed)
exit 1: VIOLATION property=<id> replay=<path>
exit 2: harness self-check failed (never expected; not a verdict about circuits)
"""
import argparse
import importlib
import json
import os
import sys

if os.environ.get('PYTHONHASHSEED') != '0' or os.environ.get('PYTHONDONTWRITEBYTECODE') != '1':
    env = dict(os.environ, PYTHONHASHSEED='0', PYTHONDONTWRITEBYTECODE='1')
    os.execve(sys.executable, [sys.executable, *sys.argv], env)

sys.dont_write_bytecode = True
HERE = os.path.dirname(os.path.abspath(__file__))
REPO = os.environ.get('VERIF_REPO', '/repo')
sys.path.insert(0, HERE)
sys.path.insert(0, REPO)
os.environ.setdefault('CIRCUITS_VERIF', '1')

from mc import core  # noqa: E402

CHECKS = {
    'C01': 'checks.c01_handlers', 'C02': 'checks.c02_order', 'C03': 'checks.c03_threads',
    'C04': 'checks.c04_values', 'C05': 'checks.c05_complete', 'C06': 'checks.c06_callwait',
    'C07': 'checks.c07_tree', 'C08': 'checks.c08_runstop', 'C09': 'checks.c09_timers',
    'C10': 'checks.c10_pollers', 'C11': 'checks.c11_writes', 'C12': 'checks.c12_conns',
    'C13': 'checks.c13_httpseg', 'C14': 'checks.c14_httprobust', 'C15': 'checks.c15_responses',
    'C16': 'checks.c16_static', 'C17': 'checks.c17_websocket', 'C18': 'checks.c18_line_irc',
    'C19': 'checks.c19_node', 'C20': 'checks.c20_auth',
}


def main():
    ap = argparse.ArgumentParser()
    ap.add_argument('prop')
    ap.add_argument('--tier', default=os.environ.get('VERIF_TIER', 'quick'), choices=['quick', 'thorough'])
    ap.add_argument('--replay')
    ap.add_argument('--workers', type=int, default=int(os.environ.get('VERIF_WORKERS', '0')) or (os.cpu_count() or 4))
    ap.add_argument('--keep-stderr', action='store_true')
    args = ap.parse_args()
    prop = args.prop.upper()
    try:
        seed = int(os.environ.get('VERIF_SEED', '0'))
    except ValueError:
        seed = 0

    import circuits
    if not os.path.abspath(circuits.__file__).startswith(os.path.abspath(REPO) + os.sep):
        print('SELF-CHECK: circuits imported from %s, not from %s' % (circuits.__file__, REPO))
        return 2
    mod = importlib.import_module(CHECKS[prop])

    if args.replay:
        doc = json.load(open(args.replay, encoding='utf-8'))
        ok, text = mod.replay(doc['witness'])
        print(text)
        print('replay: property %s %s on this case' % (prop, 'HOLDS' if ok else 'is VIOLATED'))
        return 0 if ok else 1

    real_stderr = sys.stderr
    if not args.keep_stderr:
        core.quiet_stderr()
    timer = core.Timer()
    try:
        stats = mod.run(args.tier, seed, args.workers)
    except BaseException:  # noqa: BLE001 - a check that dies must say so (stderr is silenced), and must not look like a verdict
        import traceback
        sys.stderr = real_stderr
        print('SELF-CHECK: the check itself failed:\n' + traceback.format_exc())
        return 2
    wall = timer.elapsed()
    sys.stderr = real_stderr

    findings = core.Findings()
    violations = []
    known_printed = 0
    for sig in sorted(stats.failures):
        what = findings.lookup(prop, sig)
        if what is not None:
            print('KNOWN-FINDING: property=%s %s [sig=%s; %d failing case(s) in this run]'
                  % (prop, what, sig, stats.fail_counts[sig]))
            known_printed += 1
        else:
            violations.extend(stats.failures[sig][:2])

    extra = {'known_findings_reproduced': known_printed}
    rule = getattr(mod, 'RULE', '')
    assumptions = list(getattr(mod, 'ASSUMPTIONS', []))
    core.write_evidence(prop, args.tier, seed, mod.LEVEL, stats, wall, len(violations), rule, assumptions, extra)

    print('%s %s: executions=%d states=%d transitions=%d distinct_outcomes=%d nontrivial=%d exhaustive=%s wall=%.1fs'
          % (prop, args.tier, stats.executions, stats.states, stats.transitions, len(stats.outcomes),
             len(stats.nontrivial), stats.exhaustive, wall))
    if stats.bounds:
        print('  bounds:', json.dumps(stats.bounds, sort_keys=True, default=repr))
    if stats.counters:
        print('  counters:', json.dumps(dict(stats.counters), sort_keys=True))
    for c in stats.caps:
        print('  cap hit:', c)

    for e in stats.selfcheck_errors[:5]:
        print('SELF-CHECK:', e)

    if violations:
        for n, f in enumerate(violations[:10]):
            # every violation is re-executed once, without the explorer, before it is reported
            try:
                ok, _text = mod.replay(f.witness)
                reproduced = not ok
            except Exception as exc:  # noqa: BLE001
                reproduced = 'replay raised %r' % (exc,)
            path = core.write_replay(prop, n, f, {'reproduced_on_replay': reproduced})
            print('  ', f.message[:600])
            print('VIOLATION property=%s replay=%s' % (prop, path))
        return 1
    if stats.selfcheck_errors:
        return 2
    return 0


if __name__ == '__main__':
    sys.exit(main())
