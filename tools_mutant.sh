#!/bin/bash
# usage: tools_mutant.sh <patch> <check-id> [tier]   -- apply patch to /repo, run check, revert
set -u
patch=$1; id=$2; tier=${3:-quick}
cd /repo || exit 3
git diff --quiet || { echo "/repo dirty"; exit 3; }
git apply "$patch" || { echo "patch does not apply"; exit 3; }
/venv/bin/python /verif/run_check.py "$id" --tier "$tier" > /tmp/mutant_out.$$ 2>&1
rc=$?
git checkout -- . 
grep -E "VIOLATION|KNOWN-FINDING|SELF-CHECK|executions=" /tmp/mutant_out.$$ | head -8
rm -f /tmp/mutant_out.$$
echo "exit=$rc"
