#!/bin/bash
# usage: tools_mutant.sh <patch> <check-id> [tier]
# applies the patch to a scratch worktree of /repo's HEAD (outside /repo and /verif), runs the check against it
# (VERIF_REPO), and resets the worktree.  /repo itself is not touched, so long runs against /repo are not disturbed.
set -u
patch=$1; id=$2; tier=${3:-quick}
WT=/tmp/mutwt_$$
git -C /repo worktree add -q --detach $WT HEAD || exit 3
cd $WT || exit 3
if ! git apply "$patch"; then echo "patch does not apply"; cd /; git -C /repo worktree remove --force $WT; exit 3; fi
VERIF_REPO=$WT /venv/bin/python /verif/run_check.py "$id" --tier "$tier" > /tmp/mutant_out.$$ 2>&1
rc=$?
grep -E "VIOLATION|KNOWN-FINDING|SELF-CHECK|executions=" /tmp/mutant_out.$$ | head -8
rm -f /tmp/mutant_out.$$
cd /; git -C /repo worktree remove --force $WT
echo "exit=$rc"
