#!/bin/bash
# runs every quick check from a fresh process under several VERIF_SEED values; prints one line per (check, seed);
# every line must say exit=0 and the failing-signature sets must be identical across seeds (only KNOWN-FINDING ones).
for id in C01 C02 C03 C04 C05 C06 C07 C08 C09 C10 C11 C12 C13 C14 C15 C16 C17 C18 C19 C20; do
  for seed in ${SEEDS:-1 2 3}; do
    out=$(VERIF_SEED=$seed timeout 900 /venv/bin/python /verif/run_check.py $id --tier quick 2>&1); rc=$?
    line=$(echo "$out" | grep -E "^$id quick" | sed -E 's/ wall=.*//')
    nk=$(echo "$out" | grep -c "^KNOWN-FINDING")
    nv=$(echo "$out" | grep -c "^VIOLATION")
    ns=$(echo "$out" | grep -c "^SELF-CHECK")
    echo "seed=$seed exit=$rc known=$nk violations=$nv selfcheck=$ns $line"
  done
done
