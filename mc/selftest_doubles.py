"""Free-running self-test of the synchronisation doubles against the primitives they replace (no scheduler active)."""
import os
import select
import threading

from mc import e2_threads as e2


def run():
    errs = []
    # re-entrant lock
    for mk in (threading.RLock, e2.SLock):
        lk = mk()
        got = []
        lk.acquire()
        lk.acquire()
        t = threading.Thread(target=lambda: got.append(lk.acquire(False)))
        t.start()
        t.join()
        lk.release()
        lk.release()
        t = threading.Thread(target=lambda: (got.append(lk.acquire(False)), lk.release()))
        t.start()
        t.join()
        with lk:
            pass
        if got != [False, True]:
            errs.append('%s: re-entrancy/ownership observations %r' % (mk.__name__, got))
    # event
    for mk in (threading.Event, e2.SEvent):
        ev = mk()
        obs = [ev.is_set(), ev.wait(0)]
        ev.set()
        obs += [ev.is_set(), ev.wait(0), ev.wait(None) if mk is threading.Event else ev.wait(10000)]
        ev.clear()
        obs += [ev.is_set()]
        if obs != [False, False, True, True, True, False]:
            errs.append('%s: observations %r' % (mk.__name__, obs))
    # select / poll / epoll doubles report what the real calls report (zero time-out)
    r, w = os.pipe()
    ss = e2.SSelect()
    try:
        a = select.select([r], [w], [], 0)
        b = ss.select([r], [w], [], 0)
        os.write(w, b'x')
        c = select.select([r], [w], [], 0)
        d = ss.select([r], [w], [], 0)
        if (a, c) != (b, d):
            errs.append('select double differs: %r vs %r' % ((a, c), (b, d)))
        for name in ('poll', 'epoll'):
            real = getattr(select, name)()
            dbl = getattr(ss, name)()
            for p in (real, dbl):
                p.register(r, select.POLLIN)
            if sorted(real.poll(0)) != sorted(dbl.poll(0)):
                errs.append('%s double differs' % name)
            for p in (real, dbl):
                if hasattr(p, 'close'):
                    p.close()
    finally:
        os.close(r)
        os.close(w)
    return errs
