"""Harness for the web checks (C13, C14, C15): the real HTTP component and Dispatcher under a stub server component.

Sockets are real socket objects from a socketpair (so isinstance(..., socket) paths behave), `read(sock, segment)` events are
fired by the harness, `write` / `close` events and `request` events are captured by a probe component; the tree is driven
with tick() (documented application-specific main loop) until quiescent.
"""
import re
import socket

from circuits.core.components import BaseComponent
from circuits.core.handlers import handler
from circuits.net.events import disconnect, read
from circuits.web.dispatchers import Dispatcher
from circuits.web.http import HTTP

from mc import ghost


class StubServer(BaseComponent):
    channel = 'web'
    host = '127.0.0.1'
    port = 8000
    secure = False
    display_banner = False


class Probe(BaseComponent):
    channel = 'web'
    world = None

    @handler('write', priority=10)
    def _gh_write(self, sock, data):
        self.world.on_write(sock, data)

    @handler('close', priority=10)
    def _gh_close(self, sock=None):
        self.world.on_close(sock)

    @handler('request', priority=10)
    def _gh_request(self, event, req, res, *a):
        self.world.on_request(req, res)

    @handler('exception', channel='*', priority=10)
    def _gh_exception(self, event, typ, val, tb, handler=None, fevent=None):
        self.world.exceptions.append('%s: %s (in %s)' % (getattr(typ, '__name__', typ), val, getattr(fevent, 'name', None)))


class HttpWorld:
    def __init__(self, controllers=(), dispatcher=True):
        self.root = BaseComponent()
        if isinstance(getattr(self.root, '_tasks', None), set):
            self.root._tasks = ghost.OrderedTasks()
        self.server = StubServer().register(self.root)
        self.http = HTTP(self.server, channel='web').register(self.server)
        self.server.http = self.http         # (what circuits.web.Server has; used when display_banner is switched on)
        if dispatcher:
            self.dispatcher = Dispatcher(channel='web').register(self.server)
        self.probe = Probe()
        self.probe.world = self
        self.probe.register(self.server)
        for c in controllers:
            c.register(self.server)
        self.written = {}        # sock -> bytearray
        self.events = {}         # sock -> list of ('write', n) / ('close',)
        self.requests = []       # (sock, method, path, qs, protocol, headers, body)
        self.closed = set()
        self.exceptions = []
        self.socks = []
        self.crashed = None
        self.settle()

    def new_sock(self):
        a, b = socket.socketpair()
        self.socks += [a, b]
        self.written[a] = bytearray()
        self.events[a] = []
        return a

    # -- probe callbacks --------------------------------------------------------------------------
    def on_write(self, sock, data):
        if not isinstance(data, (bytes, bytearray)):
            self.exceptions.append('write event with non-bytes payload %r' % (type(data),))
            return
        self.written.setdefault(sock, bytearray()).extend(data)
        self.events.setdefault(sock, []).append(('write', len(data), sock in self.closed))

    def on_close(self, sock):
        self.closed.add(sock)
        self.events.setdefault(sock, []).append(('close', len(self.written.get(sock, b''))))

    def on_request(self, req, res):
        try:
            body = req.body.getvalue() if hasattr(req.body, 'getvalue') else repr(req.body)
        except Exception as exc:  # noqa: BLE001
            body = 'ERR %r' % (exc,)
        self.requests.append((req.sock, req.method, req.path, req.qs, tuple(req.protocol),
                              tuple(sorted((k.lower(), v) for k, v in req.headers.items())), body))

    # -- driving ------------------------------------------------------------------------------------
    def settle(self, horizon=6000):
        try:
            for _ in range(horizon):
                q = len(self.root)
                t = getattr(self.root, '_tasks', None)
                if q == 0 and not t:
                    return True
                if q > 600 and q > 20 * (_ + 1):
                    # an event storm (every event breeds more than one new event): report it instead of drowning in it
                    self.crashed = 'event storm: %d events queued after %d ticks' % (q, _)
                    return False
                self.root.tick()
        except BaseException as exc:  # noqa: BLE001 - an exception escaping tick() is itself a verdict
            self.crashed = '%s: %s' % (type(exc).__name__, exc)
            return False
        return len(self.root) == 0

    def feed(self, sock, data):
        self.root.fire(read(sock, data), 'web')
        return self.settle()

    def disconnect(self, sock):
        # what the socket server does when a connection ends: the socket is closed, then `disconnect` is announced
        try:
            sock.close()
        except OSError:
            pass
        self.root.fire(disconnect(sock), 'web')
        return self.settle()

    def cleanup(self):
        for s in self.socks:
            try:
                s.close()
            except OSError:
                pass


DATE_RE = re.compile(rb'\r\n(Date|Last-Modified|Expires): [^\r]*', re.I)


def strip_dates(data):
    return DATE_RE.sub(b'', bytes(data))


def compositions_with_cuts(n, cuts):
    """cut positions 1..n-1; yields sorted tuples of `cuts` distinct positions"""
    import itertools
    return itertools.combinations(range(1, n), cuts)


def split_at(data, cuts):
    out = []
    prev = 0
    for c in cuts:
        out.append(data[prev:c])
        prev = c
    out.append(data[prev:])
    return out
