"""Ghost-logging harness: generated components whose handlers run tiny scripts and append to a log.

World(spec) builds a fresh real tree:  root (BaseComponent) + Observer (global catch-all, logs every
event the loop dispatches).  Handlers are generated from scripts:

  plain handler script : list of steps, executed in order
      ('fire', typ, opts)      fire a new event of type typ (opts: dict of flags / 'cancel': True / 'prio')
      ('stop',)                event.stop()
      ('raise',)               raise Boom(hid)           ('raiseb',) raise BoomBase(hid), a BaseException that is no Exception
      ('ret', v)               return v (ends the script)
      ('mstop', code)          self.stop(code)          ('sysexit', code) raise SystemExit(code)   ('kbd',)
  generator handler script ('gen', steps): additionally
      ('y', v)                 yield v
      ('call', typ, opts)      x = yield self.call(new event)         -> logs ('resumed', ...)
      ('waitn', typ, opts)     self.fire(new event); x = yield self.wait('<typ>')
      ('waito', typ, opts)     ev = new event; self.fire(ev); x = yield self.wait(ev)

Log entries (appended in real execution order; list index = ghost time):
  ('fire', eid, typ, by_eid, by_hid)            an event object was fired
  ('enter', hid, eid)  ('exit', hid, eid, how)  handler activity; generator steps log ('step', hid, eid, n)
  ('val', hid, eid, v)                          handler produced result v (return / yield of non-None / error)
  ('resumed', hid, eid, callee_eid, value, errors)
  ('obs', name, eid or parent eid, extra, argsig) observer saw a dispatched event; argsig summarises its arguments
"""
from circuits.core.components import BaseComponent
from circuits.core.events import Event
from circuits.core.handlers import handler


class Boom(Exception):
    pass


class BoomBase(BaseException):
    """an exception outside the Exception hierarchy (like asyncio.CancelledError or a custom abort class)"""


class NamedObserver(BaseComponent):
    """Observes only the listed event names, so that other events keep having NO handler at all
    (a global catch-all observer would make every event 'handled')."""

    world = None

    def __init__(self, names):
        super().__init__()
        for i, nm in enumerate(names):
            def fn(self, event, *args, **kwargs):
                Observer._gh_observe(self, event, *args, **kwargs)
            fn.__name__ = '_gh_obs_%d' % i
            self.addHandler(handler(nm, channel='*', priority=100)(fn))


class Observer(BaseComponent):
    world = None

    @handler(channel='*', priority=100)
    def _gh_observe(self, event, *args, **kwargs):
        w = self.world
        name = event.name
        if name in ('generate_events',):
            if getattr(w, 'driver', None) is None:
                w.iterations += 1
            return
        eid = getattr(event, 'eid', None)
        par = getattr(event.parent, 'eid', None) if getattr(event, 'parent', None) is not None else None
        extra = None
        argsig = None
        if name == 'exception':
            fe = kwargs.get('fevent')
            extra = getattr(fe, 'eid', None)
            # (exception type, its arguments, name of the handler function named by handler=, list-of-strings traceback?)
            argsig = (getattr(args[0], '__name__', None) if args else None,
                      repr(getattr(args[1], 'args', None)) if len(args) > 1 else None,
                      getattr(kwargs.get('handler'), '__name__', None),
                      isinstance(args[2], list) if len(args) > 2 else None)
        elif name in ('started', 'stopped'):
            argsig = (bool(args) and args[0] is w.root,)
        elif par is not None and eid is None and args:
            # feedback events (<name>_success / _failure / _complete / _done ...): does the first argument name the original
            # event, and what is the second one
            argsig = (args[0] is event.parent, repr(snapv(args[1])) if len(args) > 1 else None)
        w.log.append(('obs', name, eid if eid is not None else par, extra, argsig))


class OrderedTasks(set):
    """Drop-in for Manager._tasks: a set whose copy() (what tick() iterates) is in insertion order, or reversed.
    The stock set orders task tuples by object address, i.e. differently on every run; the explorer owns the order."""

    def __init__(self, reverse=False):
        super().__init__()
        self._order = {}
        self._reverse = reverse

    def add(self, x):
        if x not in self:
            self._order[x] = None
            super().add(x)

    def remove(self, x):
        super().remove(x)
        del self._order[x]

    def discard(self, x):
        if x in self:
            self.remove(x)

    def copy(self):
        lst = list(self._order)
        if self._reverse:
            lst.reverse()
        return lst


class World:
    task_order_reversed = False

    observe_names = None   # None: global catch-all observer; list: observe only these event names

    def __init__(self, handlers, root_cls=BaseComponent):
        """handlers: list of (hid, event type name, priority, script, opts) ; opts: {'channel':..}"""
        self.log = []
        self.events = {}          # eid -> event (kept alive; identity, never id())
        self.values = {}          # eid -> Value returned by fire()
        self.iterations = 0
        self.depth = 0
        self.maxdepth = 0
        self.root = root_cls()
        if isinstance(getattr(self.root, '_tasks', None), set):
            self.root._tasks = OrderedTasks(self.task_order_reversed)
        self.obs = Observer() if self.observe_names is None else NamedObserver(self.observe_names)
        self.obs.world = self
        self.obs.register(self.root)
        self.comp = BaseComponent()
        self.comp.register(self.root)
        for spec in handlers:
            hid, typ, prio, script = spec[:4]
            self.comp.addHandler(self.make(hid, typ, prio, script))
        while len(self.root):
            self.root.flush()   # 'registered' events
        del self.log[:]

    value_by_eid = False

    @staticmethod
    def pick(t, event):
        """a tuple-valued option is indexed by the instance number of the handler's own event"""
        if isinstance(t, (tuple, list)):
            return t[getattr(event, 'ginst', 0) % len(t)]
        return t

    def val(self, v, eid):
        """results of different event instances are made distinguishable (mix-ups between in-flight calls)"""
        if self.value_by_eid and isinstance(v, int) and v != 0 and eid is not None:     # 0 stays 0 (falsy results are part of the alphabets)
            return v + 1000 * eid
        return v

    # -- events -------------------------------------------------------------------------------
    # how event objects are made: 'create' = Event.create(name) (a fresh class per event), 'classes' = declared event classes
    # that all derive from one base event class of this world, an instance of which has asked for every kind of feedback
    # event before (the way applications with an event hierarchy look once they are warm)
    event_style = 'create'

    def _event_class(self, typ):
        classes = self.__dict__.setdefault('_event_classes', {})
        if not classes:
            base = type('gbase', (Event,), {})
            warm = base()
            for kind in ('done', 'success', 'failure', 'complete', 'value_changed'):
                warm.child(kind)
            classes[None] = base
        if typ not in classes:
            classes[typ] = type(typ, (classes[None],), {})
        return classes[typ]

    def new_event(self, typ, opts=None, by=None, by_hid=None):
        e = Event.create(typ) if self.event_style == 'create' else self._event_class(typ)()
        e.eid = len(self.events)
        self.events[e.eid] = e
        opts = opts or {}
        for k in ('success', 'failure', 'complete', 'notify'):
            if opts.get(k):
                setattr(e, k, True)
        if opts.get('success_channels'):
            e.success_channels = tuple(opts['success_channels'])
        e.gparent = by
        e.ginst = sum(1 for x in self.events.values() if x.name == typ) - 1
        self.log.append(('fire', e.eid, typ, by, by_hid))
        return e

    def fire(self, typ, opts=None, by=None, by_hid=None, firer=None):
        e = self.new_event(typ, opts, by, by_hid)
        kw = {}
        if opts and 'prio' in opts:
            kw['priority'] = opts['prio']
        if opts and opts.get('precancel'):
            # cancelled before it is handed to fire() (an entry of a prepared batch that was vetoed)
            e.cancel()
            self.log.append(('cancel', e.eid))
        self.values[e.eid] = (firer or self.comp).fire(e, **kw)
        if opts and opts.get('cancel'):
            e.cancel()
            self.log.append(('cancel', e.eid))
        return e

    # -- handlers -----------------------------------------------------------------------------
    def make(self, hid, typ, prio, script):
        w = self
        if script and script[0] == 'gen':
            steps = script[1]

            def fn(self, event, *a, **k):
                eid = getattr(event, 'eid', None)
                w.log.append(('enter', hid, eid))
                n = 0
                for st in steps:
                    op = st[0]
                    if op == 'byinst':
                        # which step is performed depends on which instance of its event type the handler is working for
                        st = st[1][getattr(event, 'ginst', 0) % len(st[1])]
                        op = st[0]
                    if op == 'y':
                        v = w.val(st[1], eid)
                        if v is not None:
                            w.log.append(('val', hid, eid, v))
                        n += 1
                        yield v
                        w.log.append(('step', hid, eid, n))
                    elif op == 'yvar':
                        # number of empty yields depends on which instance of the event type this is
                        for _ in range(st[1][getattr(event, 'ginst', 0) % len(st[1])]):
                            n += 1
                            yield None
                            w.log.append(('step', hid, eid, n))
                    elif op in ('raise', 'raiseb'):
                        w.log.append(('val', hid, eid, 'ERR'))
                        w.log.append(('exit', hid, eid, 'raise'))
                        raise (Boom if op == 'raise' else BoomBase)(hid)
                    elif op == 'fire':
                        w.fire(st[1], st[2] if len(st) > 2 else None, by=eid, by_hid=hid, firer=self)
                    elif op == 'call':
                        opts = st[2] if len(st) > 2 else {}
                        ev = w.new_event(st[1], opts, by=eid, by_hid=hid)
                        w.log.append(('suspend', hid, eid, ev.eid, 'call'))
                        kw = {}
                        if 'timeout' in opts:
                            kw['timeout'] = w.pick(opts['timeout'], event)
                        try:
                            x = yield self.call(ev, **kw)
                            w.log.append(('resumed', hid, eid, ev.eid, snap(x), bool(getattr(x, 'errors', None))))
                        except Exception as exc:  # TimeoutError is delivered by throw()
                            w.log.append(('resumed', hid, eid, ev.eid, 'EXC:' + type(exc).__name__, None))
                    elif op in ('waitn', 'waito'):
                        opts = st[2] if len(st) > 2 else {}
                        ev = w.new_event(st[1], opts, by=eid, by_hid=hid)
                        w.values[ev.eid] = self.fire(ev)
                        w.log.append(('suspend', hid, eid, ev.eid, op))
                        kw = {}
                        if 'timeout' in opts:
                            kw['timeout'] = w.pick(opts['timeout'], event)
                        try:
                            x = yield self.wait(st[1] if op == 'waitn' else ev, **kw)
                            w.log.append(('resumed', hid, eid, ev.eid, snap(x), bool(getattr(x, 'errors', None))))
                        except Exception as exc:
                            w.log.append(('resumed', hid, eid, ev.eid, 'EXC:' + type(exc).__name__, None))
                    elif op == 'waitn_never':
                        opts = st[2] if len(st) > 2 else {}
                        w.log.append(('suspend', hid, eid, -1, op))
                        kw = {}
                        if 'timeout' in opts:
                            kw['timeout'] = w.pick(opts['timeout'], event)
                        try:
                            x = yield self.wait(st[1], **kw)
                            w.log.append(('resumed', hid, eid, -1, snap(x), bool(getattr(x, 'errors', None))))
                        except Exception as exc:
                            w.log.append(('resumed', hid, eid, -1, 'EXC:' + type(exc).__name__, None))
                    elif op == 'stop':
                        event.stop()
                    elif op == 'cstop':
                        # stop() on this component itself: it is registered, its root runs - but it was never run itself
                        self.stop(st[1]) if st[1] is not None else self.stop()
                    elif op == 'mstop':
                        w.log.append(('stopcall', hid, eid, st[1]))
                        try:
                            self.root.stop(st[1]) if st[1] is not None else self.root.stop()
                        except SystemExit:
                            w.log.append(('exit', hid, eid, 'sysexit-from-stop'))
                            raise
                    elif op == 'sysexit':
                        w.log.append(('stopcall', hid, eid, st[1]))
                        w.log.append(('exit', hid, eid, 'sysexit'))
                        raise SystemExit(st[1]) if st[1] is not None else SystemExit()
                    elif op == 'kbd':
                        w.log.append(('stopcall', hid, eid, 'kbd'))
                        w.log.append(('exit', hid, eid, 'kbd'))
                        raise KeyboardInterrupt()
                w.log.append(('exit', hid, eid, 'end'))
        else:
            def fn(self, event, *a, **k):
                eid = getattr(event, 'eid', None)
                w.depth += 1
                w.maxdepth = max(w.maxdepth, w.depth)
                w.log.append(('enter', hid, eid))
                try:
                    for st in script:
                        op = st[0]
                        if op == 'fire':
                            w.fire(st[1], st[2] if len(st) > 2 else None, by=eid, by_hid=hid, firer=self)
                        elif op == 'stop':
                            event.stop()
                            w.log.append(('evstop', hid, eid))
                        elif op in ('raise', 'raiseb'):
                            w.log.append(('val', hid, eid, 'ERR'))
                            w.log.append(('exit', hid, eid, 'raise'))
                            raise (Boom if op == 'raise' else BoomBase)(hid)
                        elif op == 'retfire':
                            # the handler's result is the (future) Value of an event it fires
                            ev = w.fire(st[1], st[2] if len(st) > 2 else None, by=eid, by_hid=hid, firer=self)
                            w.log.append(('val', hid, eid, ('NESTED', ev.eid)))
                            w.log.append(('exit', hid, eid, 'ret'))
                            return w.values[ev.eid]
                        elif op == 'ret':
                            v = w.val(st[1], eid)
                            if v is not None:
                                w.log.append(('val', hid, eid, v))
                            w.log.append(('exit', hid, eid, 'ret'))
                            return v
                        elif op == 'cstop':
                            self.stop(st[1]) if st[1] is not None else self.stop()
                        elif op == 'mstop':
                            w.log.append(('stopcall', hid, eid, st[1]))
                            self.root.stop(st[1]) if st[1] is not None else self.root.stop()
                        elif op == 'sysexit':
                            w.log.append(('stopcall', hid, eid, st[1]))
                            w.log.append(('exit', hid, eid, 'sysexit'))
                            raise SystemExit(st[1]) if st[1] is not None else SystemExit()
                        elif op == 'kbd':
                            w.log.append(('stopcall', hid, eid, 'kbd'))
                            w.log.append(('exit', hid, eid, 'kbd'))
                            raise KeyboardInterrupt()
                    w.log.append(('exit', hid, eid, 'end'))
                    return None
                except SystemExit:
                    # raised by Manager.stop(code) called from this handler
                    if not (w.log and w.log[-1][0] == 'exit' and w.log[-1][1] == hid):
                        w.log.append(('exit', hid, eid, 'sysexit-from-stop'))
                    raise
                finally:
                    w.depth -= 1
        fn.__name__ = 'gh_%s' % hid
        return handler(typ, priority=prio)(fn)

    # -- stepping (H-tick: the documented application-specific main loop) ------------------------
    def pending(self):
        q = len(self.root)
        tasks = getattr(self.root, '_tasks', None)
        return q, (len(tasks) if tasks is not None else None)

    def settle(self, horizon=60):
        """tick() until queue and task set are empty.  Returns (quiescent, ticks)."""
        idle = 0
        for n in range(horizon):
            q, t = self.pending()
            if q == 0 and not t:
                idle += 1
                if t is not None or idle >= 3:
                    return True, n
            else:
                idle = 0
            self.root.tick()
        q, t = self.pending()
        return (q == 0 and not t), horizon


def snap(x):
    """Comparable snapshot of a Value (or whatever a resumed generator received)."""
    v = getattr(x, 'value', x)
    return snapv(v)


def snapv(v):
    if hasattr(v, 'getValue') and hasattr(v, 'errors'):      # a nested Value: what it resolves to
        return snapv(v.value)
    if isinstance(v, list):
        return [snapv(i) for i in v]
    if isinstance(v, tuple) and len(v) == 3 and isinstance(v[0], type) and issubclass(v[0], BaseException):
        return 'ERR'
    return v


# ---------------------------------------------------------------------------------------------------
# H-run: the real run() executes in the checking thread; a Driver component injects the script one loop
# iteration at a time from a generate_events handler and stops the manager at quiescence / the horizon.

from mc import doubles  # noqa: E402


class Driver(BaseComponent):
    world = None

    @handler('generate_events', priority=1000)
    def _gh_drive(self, event):
        w = self.world
        w.iterations += 1
        try:
            w.drive(event)
        finally:
            # contract of generate_events: a handler that did something must make sure nobody sleeps
            # (lazy worlds: only while scripted actions are still to come - afterwards the library alone decides how long to idle)
            if not w.lazy or w.script or w.acted:
                event.reduce_time_left(0)


class IdleEvent:
    """Double for threading.Event as used by the fall-back idle wait, for single-threaded worlds: nobody else exists who could
    set it, so a wait returns at once (virtual time passes) and is reported to the world; a practically unbounded wait
    (no time-out, or the 10000 s of the fall-back's untimed loop) can only be ended by another thread: the world records it and,
    the verdict being settled, releases the loop so that the execution terminates."""
    world = None

    def __init__(self):
        self._flag = False

    def set(self):
        self._flag = True

    def clear(self):
        self._flag = False

    def is_set(self):
        return self._flag

    def wait(self, timeout=None):
        if self._flag:
            return True
        w = IdleEvent.world
        if w is not None:
            w.on_idle_wait(timeout)
        return self._flag


class RunWorld(World):
    """World whose root is driven by the real Manager.run()."""

    def __init__(self, handlers, script=(), horizon=80, idle_needed=3, root_cls=BaseComponent):
        doubles.patch_process_globals()
        super().__init__(handlers, root_cls)
        self.driver = Driver()
        self.driver.world = self
        self.driver.register(self.root)
        while len(self.root):
            self.root.flush()
        del self.log[:]
        self.script = list(script)
        self.horizon = horizon
        self.idle_needed = idle_needed
        self.idle = 0
        self.lastlen = -1
        self.capped = False
        self.stopped_by_driver = False
        self.auto_stop = True
        self.idle_waits = []      # (log index, timeout) of every idle wait seen by the IdleEvent double
        self.hung = None          # set when the loop went to sleep without bound although work was pending
        self.acted = False

    lazy = False      # True: the driver does not ask for zero idle time - the loop idles exactly as the library decides

    def use_idle_double(self):
        import circuits.core.helpers as helpers_mod
        helpers_mod.Event = IdleEvent
        IdleEvent.world = self

    def on_idle_wait(self, timeout):
        self.idle_waits.append((len(self.log), timeout))
        q, t = self.pending()
        unbounded = timeout is None or timeout >= 1000
        self.log.append(('idle-wait', timeout, q, t))
        if unbounded and (q or t):
            self.hung = 'the loop entered an idle wait of %r s with %d event(s) queued and %r task(s) registered' % (timeout, q, t)
        if unbounded:
            ev = getattr(self.root, '_currently_handling', None)
            if ev is not None and hasattr(ev, 'reduce_time_left'):
                ev.reduce_time_left(0)       # release (harness only, after the unbounded wait has been recorded)
            if getattr(self.root, '_running', False):
                self.log.append(('driver-stop',))
                self.stopped_by_driver = True
                self.root.stop()

    def drive(self, event):
        self.log.append(('iter', self.iterations))
        self.acted = bool(self.script)
        if self.script:
            act = self.script.pop(0)
            if act == 'quiet':
                # wait here until queue and tasks are empty and an iteration logged nothing
                q, t = self.pending()
                if not (q == 0 and not t and len(self.log) == self.lastlen + 1) and self.iterations < self.horizon:
                    self.script.insert(0, 'quiet')
            elif act is not None:
                act(self)
            self.idle = 0
            self.lastlen = len(self.log)
            return
        q, t = self.pending()
        # the generate_events event being handled has already left the queue
        quiet = (q == 0 and not t and len(self.log) == self.lastlen + 1)
        self.lastlen = len(self.log)
        if quiet:
            self.idle += 1
        else:
            self.idle = 0
        if self.auto_stop and (self.idle >= self.idle_needed or self.iterations >= self.horizon):
            if self.iterations >= self.horizon and self.idle < self.idle_needed:
                self.capped = True
            self.stopped_by_driver = True
            self.log.append(('driver-stop',))
            self.root.stop()

    def run(self):
        """Returns ('return', None) | ('raise', repr) of run()."""
        try:
            self.root.run()
            return ('return', None)
        except BaseException as exc:  # noqa: BLE001 - SystemExit(code) is an expected outcome for C08
            return ('raise', type(exc).__name__, getattr(exc, 'code', None))
