"""Doubles for module globals of circuits (no source hooks): process-global registrations, clock."""
import circuits.core.manager as _manager


class _NoAtexit:
    @staticmethod
    def register(*a, **k):
        return None

    @staticmethod
    def unregister(*a, **k):
        return None


def patch_process_globals():
    """run() registers an atexit hook and signal handlers on every call; explorations call it 10^5 times."""
    _manager.atexit = _NoAtexit
    _manager.set_signal_handler = lambda *a, **k: None


class VirtualClock:
    """Dyadic virtual time: base 2**30 + 1/4, all steps multiples of 1/8 -> exact float arithmetic."""

    BASE = float(2 ** 30) + 0.25

    def __init__(self):
        self.now = self.BASE

    def time(self):
        return self.now

    def advance(self, dt):
        assert dt >= 0
        self.now += dt

    def rel(self):
        return self.now - self.BASE
