"""Shared services of the explorers: statistics, failures, evidence, known findings, worker pool.

Every check module in /verif/checks exposes

    PROPERTY = 'Cnn'
    LEVEL    = 'model_checking' | 'fault_enumeration' | ...
    def run(tier, seed, workers) -> Stats        (exhaustive bounded exploration on the real code)
    def replay(witness) -> (bool ok, str text)   (re-executes exactly one case without the explorer)

and run_check.py turns the returned Stats into evidence, replay files and the exit status.
"""
import hashlib
import json
import multiprocessing
import os
import sys
import time
import traceback
from collections import Counter

VERIF = os.path.dirname(os.path.dirname(os.path.abspath(__file__)))
REPO = os.environ.get('VERIF_REPO', '/repo')

MAX_FAIL_PER_SIG = 5
MAX_SAMPLES = 6
SERIAL_BELOW = 48     # work lists shorter than this are not worth forking a pool for


def h64(obj):
    """Stable 64-bit digest of a repr()-able observation (used to count distinct outcomes)."""
    return int.from_bytes(hashlib.blake2b(repr(obj).encode('utf-8', 'backslashreplace'), digest_size=8).digest(), 'big')


class Failure:
    __slots__ = ('message', 'signature', 'witness')

    def __init__(self, signature, message, witness):
        self.signature = signature
        self.message = message
        self.witness = witness

    def as_dict(self):
        return {'signature': self.signature, 'message': self.message, 'witness': self.witness}


class Stats:
    """Mergeable result of (a part of) an exploration."""

    def __init__(self):
        self.executions = 0           # executions of real code
        self.states = 0               # distinct canonical states (E1) / decision points (E2,E3)
        self.transitions = 0
        self.counters = Counter()     # collision / vacuity counters, free-form
        self.outcomes = set()         # h64 of observations (distinct observed outcomes)
        self.nontrivial = set()       # h64 of distinct cases that are non-trivial by the check's rule
        self.failures = {}            # signature -> [Failure]
        self.fail_counts = Counter()  # signature -> total count
        self.samples = []
        self.caps = []                # description of any cap that was hit
        self.notes = []
        self.bounds = {}
        self.exhaustive = True
        self.selfcheck_errors = []    # harness problems -> exit 2, never a VIOLATION
        self.next = {}                # E1: canonical-state digest -> shortest history reaching it

    def fail(self, signature, message, witness):
        self.fail_counts[signature] += 1
        lst = self.failures.setdefault(signature, [])
        if len(lst) < MAX_FAIL_PER_SIG:
            lst.append(Failure(signature, message, witness))

    def sample(self, obj, force=False):
        if force or len(self.samples) < MAX_SAMPLES:
            self.samples.append(obj)

    def outcome(self, obs):
        self.outcomes.add(h64(obs))

    def interesting(self, case):
        self.nontrivial.add(h64(case))

    def cap(self, text):
        self.exhaustive = False
        if text not in self.caps:
            self.caps.append(text)

    def merge(self, other):
        self.executions += other.executions
        self.states += other.states
        self.transitions += other.transitions
        self.counters.update(other.counters)
        self.outcomes |= other.outcomes
        self.nontrivial |= other.nontrivial
        for sig, lst in other.failures.items():
            mine = self.failures.setdefault(sig, [])
            for f in lst:
                if len(mine) < MAX_FAIL_PER_SIG:
                    mine.append(f)
        self.fail_counts.update(other.fail_counts)
        for s in other.samples:
            if len(self.samples) < MAX_SAMPLES:
                self.samples.append(s)
        for c in other.caps:
            self.cap(c)
        self.notes.extend(n for n in other.notes if n not in self.notes)
        self.bounds.update(other.bounds)
        self.exhaustive = self.exhaustive and other.exhaustive
        self.selfcheck_errors.extend(other.selfcheck_errors)
        for k, hist in other.next.items():
            mine_h = self.next.get(k)
            if mine_h is None or (len(hist), repr(hist)) < (len(mine_h), repr(mine_h)):
                self.next[k] = hist
        return self


# ---------------------------------------------------------------------------------------------
# worker pool: partition an enumerated space by index over long-lived forked workers


def _worker_entry(args):
    fn, part, nparts, payload = args
    try:
        return fn(part, nparts, payload)
    except BaseException:  # noqa: BLE001 - report harness crashes as self-check errors
        st = Stats()
        st.selfcheck_errors.append('worker %d/%d crashed:\n%s' % (part, nparts, traceback.format_exc()))
        return st


def parallel(fn, payload, workers, nparts=None):
    """Run fn(part, nparts, payload) -> Stats for part in range(nparts) and merge.

    fn must be a module-level function.  nparts > workers gives better load balance."""
    nparts = nparts or workers
    total = Stats()
    if workers <= 1 or nparts <= 1:
        for p in range(nparts):
            total.merge(_worker_entry((fn, p, nparts, payload)))
        return total
    ctx = multiprocessing.get_context('fork')
    with ctx.Pool(min(workers, nparts)) as pool:
        for st in pool.imap_unordered(_worker_entry, [(fn, p, nparts, payload) for p in range(nparts)]):
            total.merge(st)
    return total


def parallel_items(fn, items, workers, chunk=None):
    """Run fn(list_of_items) -> Stats over chunks of an explicit work list."""
    items = list(items)
    if not items:
        return Stats()
    chunk = chunk or max(1, len(items) // (workers * 8) or 1)
    chunks = [items[i:i + chunk] for i in range(0, len(items), chunk)]
    total = Stats()
    if workers <= 1 or len(chunks) <= 1 or len(items) < SERIAL_BELOW:
        for c in chunks:
            total.merge(_items_entry((fn, c)))
        return total
    ctx = multiprocessing.get_context('fork')
    with ctx.Pool(min(workers, len(chunks))) as pool:
        for st in pool.imap_unordered(_items_entry, [(fn, c) for c in chunks]):
            total.merge(st)
    return total


def _items_entry(args):
    fn, chunk = args
    try:
        return fn(chunk)
    except BaseException:  # noqa: BLE001
        st = Stats()
        st.selfcheck_errors.append('worker crashed:\n%s' % traceback.format_exc())
        return st


# ---------------------------------------------------------------------------------------------
# known findings


class Findings:
    """/verif/known_findings.txt - never written at run time.

    known: property=<id> sig=<signature> :: <what fails>
    fixed: property=<id> <commit> <what failed>          (informational; suppresses nothing)
    """

    def __init__(self, path=None):
        self.path = path or os.path.join(VERIF, 'known_findings.txt')
        self.known = {}   # (property, signature) -> what
        self.fixed = []
        if os.path.exists(self.path):
            for line in open(self.path, encoding='utf-8'):
                line = line.rstrip('\n')
                if line.startswith('known: '):
                    head, _, what = line[len('known: '):].partition(' :: ')
                    prop, _, sig = head.partition(' sig=')
                    prop = prop.replace('property=', '').strip()
                    self.known[(prop, sig.strip())] = what.strip()
                elif line.startswith('fixed: '):
                    self.fixed.append(line)

    def lookup(self, prop, signature):
        return self.known.get((prop, signature))


# ---------------------------------------------------------------------------------------------
# evidence


def write_evidence(prop, tier, seed, level, stats, wall, violations, rule, assumptions, extra=None):
    cov = {
        'evaluations': stats.executions,
        'distinct_nontrivial': len(stats.nontrivial),
        'rule': rule,
        'samples': stats.samples[:MAX_SAMPLES] or ['(no sample recorded)'],
        'traces_validated_against_impl': stats.executions,
        'distinct_outcomes': len(stats.outcomes),
        'exhaustive': bool(stats.exhaustive),
        'bounds': stats.bounds,
        'caps_hit': stats.caps,
        'collision_counters': dict(stats.counters),
        'failing_cases_by_signature': dict(stats.fail_counts),
        'notes': stats.notes,
    }
    if stats.states:
        cov['states'] = stats.states
        cov['transitions'] = max(stats.transitions, 1)
    if extra:
        cov.update(extra)
    ev = {
        'property_id': prop,
        'tier': tier,
        'seed': seed,
        'level': level,
        'coverage': cov,
        'assumptions': assumptions,
        'wall_s': round(wall, 3),
        'violations': violations,
    }
    # evidence under /verif/evidence always describes /repo itself; runs against a scratch checkout (VERIF_REPO) write elsewhere
    d = os.path.join(VERIF, 'evidence') if os.path.abspath(REPO) == '/repo' else os.path.join('/tmp', 'verif_scratch', 'evidence')
    os.makedirs(d, exist_ok=True)
    path = os.path.join(d, prop + '.json')
    tmp = path + '.tmp%d' % os.getpid()
    with open(tmp, 'w', encoding='utf-8') as f:
        json.dump(ev, f, indent=1, sort_keys=True, default=repr)
        f.write('\n')
    os.replace(tmp, path)
    return path


def write_replay(prop, n, failure, extra=None):
    d = os.path.join(VERIF, 'replays', prop) if os.path.abspath(REPO) == '/repo' else os.path.join('/tmp', 'verif_scratch', 'replays', prop)
    os.makedirs(d, exist_ok=True)
    path = os.path.join(d, '%03d.json' % n)
    doc = {'property': prop}
    doc.update(failure.as_dict())
    if extra:
        doc.update(extra)
    with open(path, 'w', encoding='utf-8') as f:
        json.dump(doc, f, indent=1, default=repr)
        f.write('\n')
    return path


def seeded_order(n, seed):
    """A permutation of range(n) determined by the seed (enumeration ORDER only; all n are visited)."""
    import random
    idx = list(range(n))
    if seed:
        random.Random(seed).shuffle(idx)
    return idx


class Timer:
    def __init__(self):
        self.t0 = time.time()

    def elapsed(self):
        return time.time() - self.t0


def quiet_stderr():
    """circuits' fallback exception handler prints tracebacks to stderr for every raising handler;
    explorations raise on purpose thousands of times."""
    devnull = open(os.devnull, 'w')
    sys.stderr = devnull
