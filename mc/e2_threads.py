"""E2 - stateless, pre-emption-bounded schedule exploration of real threads (CHESS style).

Each harness thread is a real threading.Thread that only runs while it holds the baton (one semaphore per
thread).  Scheduling points are (i) sys.monitoring LINE events of selected code objects and (ii) every
operation of the synchronisation doubles (lock, event, select/poll/epoll).  A blocking operation disables the
thread until its predicate holds; timed waits never expire by themselves.

    x = Execution(prefix).run(setup)        one execution following `prefix`, default choice 0 afterwards
    explore(setup, check, bound, ...)        all executions with <= bound pre-emptions
"""
import select as _real_select
import sys
import threading
import time

TOOL = 3
_ACTIVE = None          # the Execution currently scheduling (one per process)
_MON_READY = False
_MONITORED = set()
_FOCUS = None


def _line_cb(code, lineno):
    ex = _ACTIVE
    if ex is not None and ex.active:
        try:
            ex.point(code.co_name, lineno)
        except BaseException:  # noqa: BLE001 - the callback must never raise into the monitored frame
            ex.internal_error('line callback: %r' % (sys.exc_info()[1],))
    return None


def set_focus(funcs):
    """Restrict LINE scheduling points to the code objects of `funcs` (None: all monitored functions again).
    Synchronisation doubles stay scheduling points in any case."""
    global _FOCUS
    mon = sys.monitoring
    key = None if funcs is None else tuple(sorted(id(f) for f in funcs))
    if key == _FOCUS:
        return
    _FOCUS = key
    keep = None
    if funcs is not None:
        keep = set()
        for f in funcs:
            code = getattr(f, '__code__', None) or getattr(getattr(f, '__func__', None), '__code__', None) \
                or getattr(getattr(f, 'fget', None), '__code__', None)
            if code is not None:
                keep.add(code)
    for code in _MONITORED:
        mon.set_local_events(TOOL, code, mon.events.LINE if (keep is None or code in keep) else 0)


def monitor_functions(funcs):
    """Enable LINE scheduling points on the code objects of the given functions (idempotent)."""
    global _MON_READY
    mon = sys.monitoring
    if not _MON_READY:
        if mon.get_tool(TOOL) is None:
            mon.use_tool_id(TOOL, 'verif-e2')
        mon.register_callback(TOOL, mon.events.LINE, _line_cb)
        _MON_READY = True
    for f in funcs:
        code = getattr(f, '__code__', None) or getattr(getattr(f, '__func__', None), '__code__', None) \
            or getattr(getattr(f, 'fget', None), '__code__', None)
        if code is None or code in _MONITORED:
            continue
        mon.set_local_events(TOOL, code, mon.events.LINE)
        _MONITORED.add(code)


class TState:
    __slots__ = ('blocked_in', 'error', 'fn', 'idx', 'last', 'name', 'pred', 'sem', 'status', 'thread', 'started', 'sym')

    def __init__(self, idx, name, fn):
        self.idx = idx
        self.name = name
        self.fn = fn
        self.sem = threading.Semaphore(0)
        self.status = 'ready'
        self.pred = None
        self.thread = None
        self.error = None
        self.last = None
        self.blocked_in = None
        self.started = False
        self.sym = None       # threads with the same non-None tag run identical code: of those that have not started yet only
        #                       the one with the lowest index is offered to the scheduler (symmetry reduction)


class Execution:
    def __init__(self, prefix=(), maxpoints=6000):
        self.prefix = list(prefix)
        self.maxpoints = maxpoints
        self.threads = []
        self.by_ident = {}
        self.current = None
        self.active = False
        self.points = []          # (enabled idx tuple, current_enabled bool)
        self.choices = []
        self.terminal = None      # 'finished' | 'blocked' | 'horizon' | 'diverged' | 'error'
        self.errors = []
        self.mu = threading.Lock()
        self.observer = None      # callable(ex, thread_state, code_name, lineno) for collision counters
        self.released = threading.Event()
        self.post_wait_point = False
        self.expirable = None     # None: timed waits never expire; number: a timed select/poll of at most that many seconds may
        #                           expire, as an environment choice that costs one deviation

    # -- construction -------------------------------------------------------------------------
    def add_thread(self, name, fn, sym=None):
        t = TState(len(self.threads), name, fn)
        t.sym = sym
        self.threads.append(t)
        return t

    def me(self):
        return self.by_ident.get(threading.get_ident())

    def internal_error(self, text):
        self.errors.append(text)
        self._release('error')

    # -- scheduling core ------------------------------------------------------------------------
    def _enabled(self, me):
        out = []
        for t in self.threads:
            if t.status == 'ready':
                out.append(t)
            elif t.status == 'blocked':
                try:
                    if t.pred():
                        out.append(t)
                except Exception as exc:  # noqa: BLE001
                    self.errors.append('predicate of %s raised %r' % (t.name, exc))
        seen_sym = set()
        for t in list(out):
            if t.sym is not None and not t.started:
                if t.sym in seen_sym:
                    out.remove(t)
                seen_sym.add(t.sym)
        if me is not None and me in out:
            out.remove(me)
            out.insert(0, me)
        return out

    def _choose(self, me):
        """Record a decision point and return the thread to run next (None = nobody enabled)."""
        en = self._enabled(me)
        if not en:
            return None
        i = len(self.points)
        if i >= self.maxpoints:
            self._release('horizon')
            return me if me in en else en[0]
        cur_enabled = me is not None and en[0] is me
        self.points.append((tuple(t.idx for t in en), cur_enabled))
        if i < len(self.prefix):
            c = self.prefix[i]
            if c >= len(en):
                self.errors.append('replay diverged at point %d: choice %d but only %d enabled' % (i, c, len(en)))
                self._release('diverged')
                c = 0
        else:
            c = 0
        self.choices.append(c)
        return en[c]

    def _switch(self, me, nxt):
        self.current = nxt
        nxt.sem.release()
        me.sem.acquire()

    def env_choice(self, k):
        """An environment answer with k alternatives (0 = default); every alternative costs one deviation."""
        i = len(self.points)
        if i >= self.maxpoints:
            return 0
        self.points.append((tuple(-1 - j for j in range(k)), True))
        c = self.prefix[i] if i < len(self.prefix) else 0
        if c >= k:
            self.errors.append('replay diverged at point %d: environment choice %d of %d' % (i, c, k))
            c = 0
        self.choices.append(c)
        return c

    def after_wait(self, kind):
        """optional scheduling point right after a blocking wait has returned (what it returned is fixed already)"""
        if self.post_wait_point and self.active:
            self.point(kind + '.returned')

    def may_expire(self, timeout):
        return self.expirable is not None and timeout is not None and 0 < timeout <= self.expirable and self.env_choice(2) == 1

    def point(self, where=None, lineno=None):
        if not self.active:
            return
        me = self.me()
        if me is None or self.current is not me:
            return
        me.last = where
        if self.observer is not None and where is not None:
            self.observer(self, me, where, lineno)
        nxt = self._choose(me)
        if nxt is not None and nxt is not me and self.active:
            self._switch(me, nxt)

    def block(self, pred, what):
        """Called by the running thread when it cannot proceed until pred() holds."""
        me = self.me()
        if me is None or not self.active:
            return
        while self.active and not pred():
            me.status = 'blocked'
            me.pred = pred
            me.blocked_in = what
            nxt = self._choose(me)
            if nxt is None:
                self._release('blocked')
                break
            if nxt is me:
                break
            if not self.active:
                break
            self._switch(me, nxt)
        me.status = 'ready'
        me.pred = None
        me.blocked_in = None

    def _release(self, why):
        """Leave controlled mode: every thread runs freely from now on (doubles stop blocking)."""
        if self.terminal is None:
            self.terminal = why
            # snapshot of who was blocked where, for the verdict
            self.blocked_snapshot = {t.name: t.blocked_in for t in self.threads if t.status == 'blocked'}
            self.status_snapshot = {t.name: t.status for t in self.threads}
        self.active = False
        for t in self.threads:
            t.sem.release()
            t.sem.release()
        self.released.set()

    def _body(self, t):
        self.by_ident[threading.get_ident()] = t
        t.sem.acquire()
        t.started = True
        try:
            t.fn()
        except BaseException as exc:  # noqa: BLE001
            t.error = exc
        finally:
            t.status = 'finished'
            if self.active:
                if all(x.status == 'finished' for x in self.threads):
                    self._release('finished')
                else:
                    nxt = self._choose(None)
                    if nxt is None:
                        self._release('blocked')
                    elif self.active:
                        self.current = nxt
                        nxt.sem.release()

    def run(self, on_release=None, join_timeout=10.0):
        """Start all threads under control.  on_release() is called (in the main thread) as soon as the
        execution left controlled mode, to let the system under test shut down; then threads are joined."""
        global _ACTIVE
        _ACTIVE = self
        for t in self.threads:
            t.thread = threading.Thread(target=self._body, args=(t,), name='e2-' + t.name, daemon=True)
            t.thread.start()
        # wait until every thread is parked on its semaphore
        deadline = time.time() + 5
        while len(self.by_ident) < len(self.threads) and time.time() < deadline:
            time.sleep(0.0002)
        self.active = True
        first = self._choose(None)
        self.current = first
        first.sem.release()
        self.released.wait()
        if on_release is not None:
            try:
                on_release(self)
            except BaseException as exc:  # noqa: BLE001
                self.errors.append('on_release raised %r' % (exc,))
        deadline = time.time() + join_timeout
        for t in self.threads:
            t.thread.join(max(0.0, deadline - time.time()))
            if t.thread.is_alive():
                self.errors.append('thread %s did not terminate after release' % t.name)
        _ACTIVE = None
        return self

    def preemptions(self, upto=None):
        n = 0
        for (en, cur_enabled), c in list(zip(self.points, self.choices))[:upto]:
            if c > 0 and cur_enabled:
                n += 1
        return n


def children(ex, bound):
    """All one-step deviations of an execution that stay within the pre-emption bound: list of prefixes."""
    out = []
    npre = 0
    start = len(ex.prefix)
    for i, ((en, cur_enabled), c) in enumerate(zip(ex.points, ex.choices)):
        if i >= start:
            cost = npre + (1 if cur_enabled else 0)
            if cost <= bound:
                for alt in range(1, len(en)):
                    out.append(ex.choices[:i] + [alt])
        if c > 0 and cur_enabled:
            npre += 1
    return out


# ---------------------------------------------------------------------------------------------------
# synchronisation doubles


def _ex():
    return _ACTIVE


class SLock:
    """Re-entrant lock double (circuits.core.manager.RLock)."""

    def __init__(self):
        self.owner = None
        self.count = 0

    def acquire(self, blocking=True, timeout=-1):
        ex = _ex()
        me = threading.get_ident()
        if ex is not None and ex.active and ex.me() is not None:
            ex.point('lock.acquire')
            if self.owner is not None and self.owner != me:
                if not blocking:
                    return False
                ex.block(lambda: self.owner is None, 'lock')
        # free-running (setup, release mode): wait politely
        deadline = time.time() + 5
        while self.owner is not None and self.owner != me:
            if not blocking or time.time() > deadline:
                return False
            time.sleep(0.0002)
        self.owner = me
        self.count += 1
        return True

    def release(self):
        self.count -= 1
        if self.count <= 0:
            self.count = 0
            self.owner = None

    __enter__ = acquire

    def __exit__(self, *a):
        self.release()


class SEvent:
    """threading.Event double (circuits.core.helpers.Event): wait() blocks in the scheduler and a timed wait
    never expires by itself (the property says: without needing any timeout to expire)."""

    def __init__(self):
        self.flag = False

    def is_set(self):
        return self.flag

    def set(self):
        ex = _ex()
        if ex is not None and ex.active:
            ex.point('event.set')
        self.flag = True

    def clear(self):
        self.flag = False

    def wait(self, timeout=None):
        ex = _ex()
        if ex is not None and ex.active and ex.me() is not None:
            ex.point('event.wait')
            if not self.flag:
                ex.block(lambda: self.flag, 'event.wait(%r)' % (timeout,))
            if ex.active:
                return self.flag
        if not self.flag:
            time.sleep(0.0005)
        return self.flag


class _SPoll:
    def __init__(self, real, kind):
        self._real = real
        self._kind = kind

    def __getattr__(self, name):
        return getattr(self._real, name)

    def poll(self, timeout=None, *a):
        ex = _ex()
        if ex is not None and ex.active and ex.me() is not None:
            ex.point(self._kind + '.poll')
            ready = self._real.poll(0)
            blocking = timeout is None or timeout < 0 or timeout > 0
            if ready or not blocking:
                return ready
            if ex.may_expire(None if timeout is None else (timeout / 1000.0 if self._kind == 'poll' else timeout)):
                ex.after_wait(self._kind)
                return []
            ex.block(lambda: bool(self._real.poll(0)), '%s.poll(%r)' % (self._kind, timeout))
            ready = self._real.poll(0)
            ex.after_wait(self._kind)
            return ready
        return self._real.poll(0.0005 if self._kind == 'epoll' else 1)


class SSelect:
    """Module double for circuits.core.pollers.select."""

    def __getattr__(self, name):
        return getattr(_real_select, name)

    def select(self, r, w, x, timeout=None):
        ex = _ex()
        if ex is not None and ex.active and ex.me() is not None:
            ex.point('select.select')
            res = _real_select.select(r, w, x, 0)
            if any(res) or (timeout is not None and timeout == 0):
                return res
            if ex.may_expire(timeout):
                ex.after_wait('select')
                return res
            ex.block(lambda: any(_real_select.select(r, w, x, 0)), 'select.select(%r)' % (timeout,))
            res = _real_select.select(r, w, x, 0)
            ex.after_wait('select')
            return res
        return _real_select.select(r, w, x, 0.0005)

    def poll(self):
        return _SPoll(_real_select.poll(), 'poll')

    def epoll(self, *a, **k):
        return _SPoll(_real_select.epoll(*a, **k), 'epoll')
