"""E1 - explicit-state breadth-first search over operation histories of real objects.

A state IS the history that reaches it: live circuits objects (generators, locks, kernel fds) cannot be
copied, so every state is rebuilt from scratch by replaying its history on fresh objects.

    model.enabled(hist)            -> list of ops (small finite menu, preconditions from the property text,
                                      evaluated on the ghost state only)
    model.build(hist)              -> world: fresh real objects with the history applied
    model.check(hist, world, st)   -> evaluates oracle/invariants, records failures in st
    model.canon(world)             -> hashable canonical form (what can influence observable futures)
                                      or None: "history is the state" (no merging; sound, slower)
    model.close(world)             -> release fds etc.
"""
from mc import core


class Model:
    def enabled(self, hist):
        raise NotImplementedError

    def build(self, hist):
        raise NotImplementedError

    def check(self, hist, world, st):
        pass

    def canon(self, world):
        return None

    def close(self, world):
        pass


_MODEL = None


def _expand(chunk):
    model = _MODEL
    st = core.Stats()
    for hist in chunk:
        for op in model.enabled(hist):
            nh = hist + (op,)
            world = model.build(nh)
            try:
                st.executions += 1
                st.transitions += 1
                model.check(nh, world, st)
                k = model.canon(world)
            finally:
                model.close(world)
            if k is None:
                k = ('hist', nh)
                st.counters['states_not_merged'] += 1
            dk = core.h64(k)
            old = st.next.get(dk)
            if old is None or (len(nh), repr(nh)) < (len(old), repr(old)):
                st.next[dk] = nh
    return st


def bfs(model, depth, workers, seed=0, max_states=None):
    """Level-synchronous BFS.  Returns Stats; st.bounds['depth_completed'] is the last fully explored depth."""
    global _MODEL
    _MODEL = model
    total = core.Stats()
    w0 = model.build(())
    try:
        model.check((), w0, total)
        k0 = model.canon(w0)
    finally:
        model.close(w0)
    total.executions += 1
    seen = {core.h64(k0 if k0 is not None else ('hist', ()))}
    frontier = [()]
    completed = 0
    per_level = []
    for d in range(1, depth + 1):
        if not frontier:
            break
        if seed:
            import random
            random.Random(seed + d).shuffle(frontier)
        st = core.parallel_items(_expand, frontier, workers)
        nxt = st.next
        st.next = {}
        total.merge(st)
        new = []
        for dk in sorted(nxt):
            if dk not in seen:
                seen.add(dk)
                new.append(nxt[dk])
        per_level.append(len(new))
        completed = d
        frontier = new
        if max_states and len(seen) > max_states and d < depth:
            total.cap('state cap %d exceeded after depth %d (depth %d fully explored)' % (max_states, d, d))
            break
    total.states = len(seen)
    total.bounds['depth_bound'] = depth
    total.bounds['depth_completed'] = completed
    total.bounds['new_states_per_level'] = per_level
    total.bounds['frontier_emptied'] = not frontier
    total.next = {}
    return total
