"""E3 - deviation-bounded enumeration of environment answers.

Every call to the seam is a choice point with a default answer (index 0).  An execution follows a prefix of
choices and takes the default afterwards; explore() enumerates every execution with at most `bound` non-default
answers (iteratively: the one-step deviations of each execution that stay within the bound)."""


class Env:
    def __init__(self, prefix=()):
        self.prefix = list(prefix)
        self.kinds = []
        self.arity = []
        self.choices = []
        self.diverged = None

    def choose(self, kind, n):
        i = len(self.choices)
        c = self.prefix[i] if i < len(self.prefix) else 0
        if c >= n:
            self.diverged = 'point %d (%s): choice %d of %d' % (i, kind, c, n)
            c = 0
        self.kinds.append(kind)
        self.arity.append(n)
        self.choices.append(c)
        return c

    def deviations(self):
        return [(i, self.kinds[i], c) for i, c in enumerate(self.choices) if c]


def children(env, bound):
    out = []
    start = len(env.prefix)
    ndev = 0
    for i, c in enumerate(env.choices):
        if i >= start and ndev + 1 <= bound:
            for alt in range(1, env.arity[i]):
                out.append(env.choices[:i] + [alt])
        if c:
            ndev += 1
    return out


def explore(run_one, bound, prefix=()):
    """run_one(prefix) -> Env (after executing and judging).  Yields nothing; returns number of executions."""
    n = 0
    stack = [list(prefix)]
    while stack:
        p = stack.pop()
        env = run_one(p)
        n += 1
        stack.extend(children(env, bound))
    return n
