#!/bin/bash
# runs the thorough tier of every check (or of the ids given as arguments, in that order), one after the other;
# prints exit status and wall time per check
ids="$*"
[ -z "$ids" ] && ids=$(for n in $(seq -w 1 20); do echo C$n; done)
for id in $ids; do
  s=$(date +%s)
  timeout 7200 /venv/bin/python run_check.py $id --tier thorough > /tmp/thorough_$id.log 2>&1
  rc=$?
  echo "$id exit=$rc wall=$(( $(date +%s) - s ))s  $(grep -c VIOLATION /tmp/thorough_$id.log) violation lines, $(grep -c SELF-CHECK /tmp/thorough_$id.log) self-check lines"
done
